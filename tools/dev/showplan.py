import sys, json
sys.path.insert(0, '/verif/tools')
import simdrv, check, hist, p11const as K
prop = sys.argv[1]; seed = int(sys.argv[2]); index = int(sys.argv[3])
mod = check.load_prop(prop); z = simdrv.Zygote('asan')
plan = mod.gen(seed, 'quick', index)
if hasattr(mod, 'prepare'): plan = mod.prepare(plan, z)
r = z.run(plan)
for tid, k, op, ret in hist.walk(plan, r):
    o = {kk: v for kk, v in op.items() if kk not in ('types',)}
    s = json.dumps(o)
    print(k, s[:260], '->', K.rvname(ret.get('rv')) if 'rv' in ret else '')
