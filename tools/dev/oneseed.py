import sys, json
sys.path.insert(0, '/verif/tools')
import simdrv, check, hist
prop = sys.argv[1]; seed = int(sys.argv[2]); index = int(sys.argv[3]) if len(sys.argv) > 3 else None
mod = check.load_prop(prop)
z = simdrv.Zygote('asan')
if index is None:
    for i in range(200000):
        if check.run_seed(1, prop, i) == seed: index = i + 0; break
plan = mod.gen(seed, 'quick', index)
plan["knobs"].pop("tokendir", None)
if hasattr(mod, 'prepare'): plan = mod.prepare(plan, z)
plan["knobs"]["log_fs"] = True; plan["knobs"]["log_syslog"] = True
r = z.run(plan)
vs, cov = check.eval_run(mod, plan, r)
print(json.dumps(plan["knobs"]), plan.get("faults"))
for v in vs: print(json.dumps(v)[:500])
lo = int(sys.argv[4]) if len(sys.argv) > 4 else 0; hi = int(sys.argv[5]) if len(sys.argv) > 5 else 10**9
for e in r.hist:
    if e.get('e')=='syslog' or lo <= (e.get("op") if e.get("op") is not None else -1) <= hi:
        print(json.dumps(e)[:400])
