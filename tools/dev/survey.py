import sys, json, collections
sys.path.insert(0, '/verif/tools')
import simdrv, check
from multiprocessing import Pool
prop = sys.argv[1]; n = int(sys.argv[2]); only_db = (len(sys.argv) <= 3 or sys.argv[3] == 'db')
fields = sys.argv[4].split(',') if len(sys.argv) > 4 else ['class', 'call', 'manifestation']
def work(i):
    global z
    mod = check.load_prop(prop)
    if 'z' not in globals(): z = check.make_runner(mod)
    seed = check.run_seed(1, prop, i)
    plan = mod.gen(seed, 'quick', i)
    if only_db and plan["knobs"].get("conf", {}).get("objectstore.backend") != "db": return None
    if hasattr(mod, 'prepare'): plan = mod.prepare(plan, z)
    r = z.run(plan)
    vs, cov = check.eval_run(mod, plan, r)
    return (i, seed, [{k: v.get(k) for k in fields + ['msg']} for v in vs[:3]], r.stderr[-600:] if r.died else '')
if __name__ == '__main__':
    with Pool(14) as p:
        res = [x for x in p.map(work, range(n), chunksize=4) if x]
    c = collections.Counter(); ex = {}
    for i, seed, vs, err in res:
        for v in vs[:1]:
            key = tuple(str(v.get(k)) for k in fields); c[key] += 1; ex.setdefault(key, (i, seed, v['msg'][:300], err))
    print("runs", len(res), "with violations", sum(1 for x in res if x[2]))
    for k, v in c.most_common(): print(v, k, ex[k])
