"""PKCS#11 constants parsed from the repository's own header at import time (no copy kept)."""
import os, re

REPO = os.environ.get("VERIF_REPO", "/repo")
_HDR = os.path.join(REPO, "src", "lib", "pkcs11", "pkcs11.h")

C = {}
NAMES = {}   # prefix -> {value: name}

def _load():
    txt = open(_HDR).read()
    pend = []
    for m in re.finditer(r"^#define\s+(CK[A-Z]_[A-Z0-9_]+)\s+(.+?)\s*$", txt, re.M):
        name, expr = m.group(1), m.group(2)
        expr = re.sub(r"/\*.*?\*/", "", expr).strip()
        pend.append((name, expr))
    for _ in range(4):
        rest = []
        for name, expr in pend:
            e = re.sub(r"\(unsigned long\)", "", expr)
            e = re.sub(r"(0x[0-9a-fA-F]+|\d+)(UL|L|U)\b", r"\1", e)
            e = re.sub(r"\bCK[A-Z]_[A-Z0-9_]+\b", lambda mm: str(C[mm.group(0)]) if mm.group(0) in C else mm.group(0), e)
            e = e.replace("~0", "0xFFFFFFFFFFFFFFFF")
            try:
                v = eval(e, {"__builtins__": {}})
                if isinstance(v, int):
                    C[name] = v & 0xFFFFFFFFFFFFFFFF
                    continue
            except Exception:
                pass
            rest.append((name, expr))
        pend = rest
    C.setdefault("CK_UNAVAILABLE_INFORMATION", 0xFFFFFFFFFFFFFFFF)
    C["CKA_OS_TOKENLABEL"] = C["CKA_VENDOR_DEFINED"] + 0x5348 + 1 if False else None
    del C["CKA_OS_TOKENLABEL"]
    for name, v in C.items():
        pre = name.split("_", 1)[0]
        NAMES.setdefault(pre, {}).setdefault(v, name)

_load()

def name(prefix, value):
    return NAMES.get(prefix, {}).get(value, "%s_0x%x" % (prefix, value))

def rvname(v):
    return name("CKR", v)

globals().update(C)

# SoftHSM private attribute ids in token.object (OSAttributes.h)
CKA_VENDOR_SOFTHSM = C["CKA_VENDOR_DEFINED"] + 0x5348
CKA_OS_TOKENLABEL = CKA_VENDOR_SOFTHSM + 1
CKA_OS_TOKENSERIAL = CKA_VENDOR_SOFTHSM + 2
CKA_OS_TOKENFLAGS = CKA_VENDOR_SOFTHSM + 3
CKA_OS_SOPIN = CKA_VENDOR_SOFTHSM + 4
CKA_OS_USERPIN = CKA_VENDOR_SOFTHSM + 5

def u64(v):
    return int(v).to_bytes(8, "little").hex()

def A_bool(t, v):
    return [t, "x", "01" if v else "00"]

def A_ulong(t, v):
    return [t, "x", u64(v)]

def A_bytes(t, b):
    return [t, "x", b.hex() if isinstance(b, (bytes, bytearray)) else b]

def A_str(t, s):
    return [t, "x", s.encode().hex()]

def A_mechs(t, ms):
    return [t, "x", "".join(u64(m) for m in ms)]
