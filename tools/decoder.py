"""Independent decoder of SoftHSM's on-disk token format (DESIGN 2.7).  Shares no code with the library:
own parser, own RFC 4880 S2K (hashlib), AES-256-CBC through libcrypto's EVP interface via ctypes."""
import ctypes, ctypes.util, hashlib, struct
import p11const as K

_lib = None
def _crypto():
    global _lib
    if _lib is None:
        name = ctypes.util.find_library("crypto") or "libcrypto.so.3"
        _lib = ctypes.CDLL(name)
        _lib.EVP_CIPHER_CTX_new.restype = ctypes.c_void_p
        _lib.EVP_aes_256_cbc.restype = ctypes.c_void_p
        _lib.EVP_CIPHER_CTX_free.argtypes = [ctypes.c_void_p]
        _lib.EVP_DecryptInit_ex.argtypes = [ctypes.c_void_p, ctypes.c_void_p, ctypes.c_void_p, ctypes.c_char_p, ctypes.c_char_p]
        _lib.EVP_DecryptUpdate.argtypes = [ctypes.c_void_p, ctypes.c_char_p, ctypes.POINTER(ctypes.c_int), ctypes.c_char_p, ctypes.c_int]
        _lib.EVP_DecryptFinal_ex.argtypes = [ctypes.c_void_p, ctypes.c_char_p, ctypes.POINTER(ctypes.c_int)]
    return _lib

def aes256_cbc_decrypt(key, iv, data):
    """PKCS#7-padded AES-256-CBC; returns plaintext or None"""
    if len(key) != 32 or len(iv) != 16 or len(data) % 16 or not data:
        return None
    L = _crypto()
    ctx = L.EVP_CIPHER_CTX_new()
    try:
        if L.EVP_DecryptInit_ex(ctx, L.EVP_aes_256_cbc(), None, key, iv) != 1: return None
        out = ctypes.create_string_buffer(len(data) + 32); n = ctypes.c_int(0)
        if L.EVP_DecryptUpdate(ctx, out, ctypes.byref(n), data, len(data)) != 1: return None
        tot = n.value
        fin = ctypes.create_string_buffer(32)
        if L.EVP_DecryptFinal_ex(ctx, fin, ctypes.byref(n)) != 1: return None
        return out.raw[:tot] + fin.raw[:n.value]
    finally:
        L.EVP_CIPHER_CTX_free(ctx)

def s2k(pin, salt):
    h = hashlib.sha256(salt + pin).digest()
    for _ in range(1500 + salt[7] - 1):
        h = hashlib.sha256(h).digest()
    return h

def unwrap_master_key(blob, pin):
    """PIN blob := salt[8] iv[16] AES-256-CBC-PKCS7(S2K(pin,salt), 'RJR' || masterkey[32]) -> master key or None"""
    if blob is None or len(blob) < 8 + 16 + 16 or not pin:
        return None
    salt, iv, ct = blob[:8], blob[8:24], blob[24:]
    pt = aes256_cbc_decrypt(s2k(pin, salt), iv, ct)
    if pt is None or pt[:3] != b"RJR" or len(pt) != 35:
        return None
    return pt[3:]

def decrypt_value(mk, stored):
    """private byte attribute := iv[16] || AES-256-CBC-PKCS7(masterkey, plaintext); empty stands for empty"""
    if stored == b"":
        return b""
    if mk is None or len(stored) < 32:
        return None
    return aes256_cbc_decrypt(mk, stored[:16], stored[16:])

class FormatError(Exception):
    pass

def _u64(b, off):
    if off + 8 > len(b): raise FormatError("cut inside an 8-byte field at %d" % off)
    return struct.unpack(">Q", b[off:off + 8])[0], off + 8

def parse_attr_map(b):
    out = {}; off = 0
    while off < len(b):
        t, off = _u64(b, off); kind, off = _u64(b, off)
        if kind == 1:
            if off + 1 > len(b): raise FormatError("map bool")
            out[t] = ("b", b[off] != 0); off += 1
        elif kind == 2:
            v, off = _u64(b, off); out[t] = ("u", v)
        elif kind == 3:
            n, off = _u64(b, off)
            if off + n > len(b): raise FormatError("map bytes")
            out[t] = ("x", b[off:off + n]); off += n
        elif kind == 5:
            n, off = _u64(b, off); ms = []
            for _ in range(n):
                m, off = _u64(b, off); ms.append(m)
            out[t] = ("m", sorted(ms))
        else:
            raise FormatError("map kind %d" % kind)
    return out

def parse_object(b):
    """object file := u64 generation { u64 type u64 kind value }*  ->  (generation, {type: (kind, value)})"""
    if len(b) == 0:
        return None, {}
    gen, off = _u64(b, 0)
    attrs = {}
    while off < len(b):
        t, off = _u64(b, off); kind, off = _u64(b, off)
        if kind == 1:
            if off + 1 > len(b): raise FormatError("bool cut")
            attrs[t] = ("b", b[off] != 0); off += 1
        elif kind == 2:
            v, off = _u64(b, off); attrs[t] = ("u", v)
        elif kind == 3:
            n, off = _u64(b, off)
            if off + n > len(b): raise FormatError("bytes cut (%d wanted, %d left)" % (n, len(b) - off))
            attrs[t] = ("x", b[off:off + n]); off += n
        elif kind == 5:
            n, off = _u64(b, off); ms = []
            for _ in range(n):
                m, off = _u64(b, off); ms.append(m)
            attrs[t] = ("m", sorted(ms))
        elif kind == 4:
            n, off = _u64(b, off)
            if off + n > len(b): raise FormatError("attribute map cut")
            attrs[t] = ("t", parse_attr_map(b[off:off + n])); off += n
        else:
            raise FormatError("unknown attribute kind %d at %d" % (kind, off))
    return gen, attrs

class TokenDir:
    def __init__(self, path):
        self.path = path; self.label = None; self.serial = None; self.flags = None
        self.so_blob = None; self.user_blob = None; self.objects = {}   # file name -> (gen, attrs) | FormatError
        self.files = {}; self.modes = {}

def decode_tree(tree, tokens_root="/sim/tokens"):
    """tree: {path: {"hex":..., "mode":...} | {"dir":True}} as dumped by the simulator -> {dirname: TokenDir}"""
    toks = {}
    for path, ent in tree.items():
        if not path.startswith(tokens_root + "/"): continue
        rest = path[len(tokens_root) + 1:]
        parts = rest.split("/")
        td = toks.setdefault(parts[0], TokenDir(tokens_root + "/" + parts[0]))
        if len(parts) == 1:
            td.modes["."] = ent.get("mode"); continue
        name = parts[1]
        td.modes[name] = ent.get("mode")
        if ent.get("dir"): continue
        data = bytes.fromhex(ent.get("hex", ""))
        td.files[name] = data
        if name == "token.object":
            try:
                g, at = parse_object(data)
                td.label = at.get(K.CKA_OS_TOKENLABEL, (None, None))[1]
                ser = at.get(K.CKA_OS_TOKENSERIAL, (None, None))[1]
                td.serial = ser.decode("latin-1") if ser is not None else None
                td.flags = at.get(K.CKA_OS_TOKENFLAGS, (None, None))[1]
                td.so_blob = at.get(K.CKA_OS_SOPIN, (None, None))[1]
                td.user_blob = at.get(K.CKA_OS_USERPIN, (None, None))[1]
                td.token_attrs = at
            except FormatError as e:
                td.token_error = str(e)
        elif name.endswith(".object"):
            try:
                td.objects[name] = parse_object(data)
            except FormatError as e:
                td.objects[name] = e
        elif name == "sqlite3.db":
            decode_db(td, data)
    return toks

# ---------------------------------------------------------------- the SQLite object store, decoded independently (Python's sqlite3 module reads the raw database image; no SoftHSM code)
#   object(id)                               id 1 = token info (label, serial, flags, PIN blobs), every other id = one token object
#   attribute_boolean(value,type,object_id)  0 / 1
#   attribute_integer(value,type,object_id)  CK_ULONG printed as a signed 64-bit integer
#   attribute_binary(value blob,type,object_id)  byte strings (private ones encrypted like in the file store); CKA_ALLOWED_MECHANISMS = concatenated native-endian 8-byte mechanism numbers
#   attribute_array(value blob,type,object_id)   nested template: { u64le type, u32le kind(1 bool,2 ulong,3 bytes,5 mech set), value }*  value: bool 1 byte | u64le | u64le n + n bytes
def parse_db_attr_map(b):
    out = {}; off = 0
    def need(n):
        if off + n > len(b): raise FormatError("attribute array cut at %d" % off)
    while off < len(b):
        need(12); t = int.from_bytes(b[off:off + 8], "little"); kind = int.from_bytes(b[off + 8:off + 12], "little"); off += 12
        if kind == 1:
            need(1); out[t] = ("b", b[off] != 0); off += 1
        elif kind == 2:
            need(8); out[t] = ("u", int.from_bytes(b[off:off + 8], "little")); off += 8
        elif kind in (3, 5):
            need(8); n = int.from_bytes(b[off:off + 8], "little"); off += 8
            need(n); v = b[off:off + n]; off += n
            out[t] = ("x", v) if kind == 3 else ("m", sorted(int.from_bytes(v[i:i + 8], "little") for i in range(0, len(v), 8)))
        else:
            raise FormatError("attribute array kind %d" % kind)
    return out

def decode_db(td, data):
    import sqlite3
    try:
        con = sqlite3.connect(":memory:")
        con.deserialize(data)
        objs = {}
        for (oid,) in con.execute("select id from object"): objs[oid] = {}
        for (v, t, oid) in con.execute("select value,type,object_id from attribute_boolean"): objs.setdefault(oid, {})[t] = ("b", bool(v))
        for (v, t, oid) in con.execute("select value,type,object_id from attribute_integer"): objs.setdefault(oid, {})[t] = ("u", v & ((1 << 64) - 1))
        for (v, t, oid) in con.execute("select value,type,object_id from attribute_binary"):
            v = bytes(v) if v is not None else b""
            if t == K.CKA_ALLOWED_MECHANISMS: objs.setdefault(oid, {})[t] = ("m", sorted(int.from_bytes(v[i:i + 8], "little") for i in range(0, len(v), 8)))
            else: objs.setdefault(oid, {})[t] = ("x", v)
        for (v, t, oid) in con.execute("select value,type,object_id from attribute_array"):
            try: objs.setdefault(oid, {})[t] = ("t", parse_db_attr_map(bytes(v) if v is not None else b""))
            except FormatError as e: objs[oid] = e
        con.close()
    except Exception as e:
        td.token_error = "sqlite3.db: %s" % e; return
    td.backend = "db"
    at = objs.pop(1, None)
    if isinstance(at, dict):
        td.label = at.get(K.CKA_OS_TOKENLABEL, (None, None))[1]
        ser = at.get(K.CKA_OS_TOKENSERIAL, (None, None))[1]
        td.serial = ser.decode("latin-1") if ser is not None else None
        td.flags = at.get(K.CKA_OS_TOKENFLAGS, (None, None))[1]
        td.so_blob = at.get(K.CKA_OS_SOPIN, (None, None))[1]
        td.user_blob = at.get(K.CKA_OS_USERPIN, (None, None))[1]
        td.token_attrs = at
    for oid, a in objs.items():
        td.objects["db:%d" % oid] = a if isinstance(a, Exception) else (None, a)

def object_view(attrs, mk):
    """plain attribute values of one decoded object: {type: bytes|bool|int|list}; byte strings of private objects are decrypted with mk.
    Values that cannot be decrypted map to None."""
    priv = attrs.get(K.CKA_PRIVATE, ("b", True))[1]
    out = {}
    for t, (kind, v) in attrs.items():
        if kind == "x" and priv:
            out[t] = decrypt_value(mk, v)
        else:
            out[t] = v
    return out


def aes_ecb_encrypt_block(key, block=bytes(16)):
    """one AES block under key (16/24/32 bytes), ECB - for key check values"""
    L = _load() if "_load" in globals() else None
    import ctypes, ctypes.util
    lib = ctypes.CDLL(ctypes.util.find_library("crypto") or "libcrypto.so.3")
    fn = {16: "EVP_aes_128_ecb", 24: "EVP_aes_192_ecb", 32: "EVP_aes_256_ecb"}.get(len(key))
    if fn is None: return None
    getattr(lib, fn).restype = ctypes.c_void_p
    lib.EVP_CIPHER_CTX_new.restype = ctypes.c_void_p
    lib.EVP_CIPHER_CTX_free.argtypes = [ctypes.c_void_p]
    lib.EVP_EncryptInit_ex.argtypes = [ctypes.c_void_p, ctypes.c_void_p, ctypes.c_void_p, ctypes.c_char_p, ctypes.c_char_p]
    lib.EVP_EncryptUpdate.argtypes = [ctypes.c_void_p, ctypes.c_char_p, ctypes.POINTER(ctypes.c_int), ctypes.c_char_p, ctypes.c_int]
    lib.EVP_CIPHER_CTX_set_padding.argtypes = [ctypes.c_void_p, ctypes.c_int]
    ctx = lib.EVP_CIPHER_CTX_new()
    try:
        if lib.EVP_EncryptInit_ex(ctx, getattr(lib, fn)(), None, key, None) != 1: return None
        lib.EVP_CIPHER_CTX_set_padding(ctx, 0)
        out = ctypes.create_string_buffer(32); n = ctypes.c_int(0)
        if lib.EVP_EncryptUpdate(ctx, out, ctypes.byref(n), block, 16) != 1: return None
        return out.raw[:16]
    finally:
        lib.EVP_CIPHER_CTX_free(ctx)

def kcv(kind, value):
    """SoftHSM's CKA_CHECK_VALUE: generic secrets - first 3 bytes of SHA-1(value); AES - first 3 bytes of the encrypted zero block"""
    import hashlib
    if kind == "generic": return hashlib.sha1(value).digest()[:3]
    if kind == "aes":
        b = aes_ecb_encrypt_block(value)
        return b[:3] if b else None
    return None
