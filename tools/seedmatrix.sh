#!/bin/sh
# usage: tools/seedmatrix.sh [ID:CHECK ...]   -- run every seeded change under /verif/seeded against its own check (or the given pairs); one line per pair.
# Evidence of these runs goes to /var/tmp/verif-mut-evidence (tools/trymut.sh), never to /verif/evidence.  /repo is reverted after every run.
cd /verif || exit 3
PAIRS="$*"
if [ -z "$PAIRS" ]; then for d in seeded/C*/; do id=$(basename $d); chk=$(echo $id | sed "s/[bcd]$//"); PAIRS="$PAIRS $id:$chk"; done; fi
for pc in $PAIRS; do
  id=${pc%%:*}; chk=${pc##*:}
  out=$(tools/trymut.sh /verif/seeded/$id/patch.diff $chk 2>&1); rc=$?
  line=$(echo "$out" | grep "^$chk quick" | tail -1 | cut -c1-160)
  first=$(echo "$out" | grep -m1 "^violation class" | cut -c1-200)
  if [ $rc -eq 1 ]; then echo "CAUGHT  seeded/$id by $chk | $line | $first"; elif [ $rc -eq 0 ]; then echo "MISSED  seeded/$id by $chk | $line"; else echo "ERROR($rc) seeded/$id by $chk"; fi
done
