"""Shared sequential object/session workload (profiles seq; used by C01, C05, C06, C09, C11, C19, ...)."""
import p11const as K
from gen import G, RW, RO
import objs
from p11const import A_bool, A_ulong, A_bytes

class OW(G):
    """object workload generator: random steps guided by the model"""
    def __init__(self, seed, prop, profile="seq", ntok=None, kinds=None):
        super().__init__(seed, prop, profile)
        r = self.r
        self.kinds = kinds or objs.KINDS
        self.pins = {}
        self.info = {}      # obj ref -> info from objs.make (secrets...)
        self.after_each = None   # callable(tid) -> emits probe ops after every step
        self.max_objs = 12
        self.max_sess = 6
        self.ntok = ntok if ntok is not None else (1 if r.random() < 0.6 else 2)

    def begin(self, tid=0, pid=1):
        self.task(tid, pid)
        self.emit({"act": "start"}, tid)
        for _ in range(self.ntok):
            so = self.pin(); up = self.pin()
            t = self.setup_token(tid, so_pin=so, upin=up)
            self.pins[t] = [so, up]

    # ---- state helpers
    def P(self, pid=1): return self.w.proc(pid)
    def live_sessions(self, pid=1, tok=None):
        return [s for s in self.P(pid).sessions.values() if tok is None or s.tok == tok]
    def live_objs(self, pid=1, tok=None):
        return [o for o in self.w.objs.values() if self.w.obj_live_in(pid, o) and (tok is None or o.tok == tok)]
    def toks(self): return list(self.pins)

    # ---- steps (each returns True if it emitted something)
    def s_open(self, tid=0, pid=1, tok=None, rw=None):
        r = self.r; tok = tok or r.choice(self.toks())
        if len(self.live_sessions(pid)) >= self.max_sess: return False
        rw = (r.random() < 0.65) if rw is None else rw
        would = not (not rw and self.P(pid).login.get(tok) == "S")
        self.emit({"f": "C_OpenSession", "slot": tok, "flags": RW if rw else RO, "out": self.new_sess()}, tid, ok=would)
        return True

    def s_close(self, tid=0, pid=1):
        live = self.live_sessions(pid)
        if not live: return False
        s = self.r.choice(live)
        self.emit({"f": "C_CloseSession", "s": s.ref}, tid)
        return True

    def s_closeall(self, tid=0, pid=1):
        self.emit({"f": "C_CloseAllSessions", "slot": self.r.choice(self.toks())}, tid)
        return True

    def s_login(self, tid=0, pid=1, user=None, tok=None, right=True):
        r = self.r
        live = self.live_sessions(pid, tok)
        if not live: return False
        s = r.choice(live)
        user = user if user is not None else (K.CKU_USER if r.random() < 0.8 else K.CKU_SO)
        tk = self.w.toks[s.tok]
        cur = tk.so_pin if user == K.CKU_SO else tk.user_pin
        pin = cur if (right and cur is not None) else self.near_pin(cur or b"abcd")
        ok = (pin == cur and self.P(pid).login.get(s.tok) is None and not (user == K.CKU_SO and any(not z.rw for z in self.w.sessions_on(pid, s.tok))))
        self.emit({"f": "C_Login", "s": s.ref, "user": user, "pin": pin.hex()}, tid, ok=ok)
        return True

    def s_logout(self, tid=0, pid=1):
        live = self.live_sessions(pid)
        if not live: return False
        self.emit({"f": "C_Logout", "s": self.r.choice(live).ref}, tid)
        return True

    def can_create(self, pid, s, token, private):
        lg = self.P(pid).login.get(s.tok)
        if private and lg != "U": return False
        if token and not s.rw: return False
        return True

    def s_create(self, tid=0, pid=1, kind=None, token=None, private=None, sess=None, **kw):
        r = self.r
        live = self.live_sessions(pid)
        if not live or len(self.live_objs(pid)) >= self.max_objs: return False
        s = sess or r.choice(live)
        kind = kind or r.choice(self.kinds)
        token = (r.random() < 0.55) if token is None else token
        private = (r.random() < 0.5) if private is None else private
        ref = self.new_obj()
        tmpl, info = objs.make(kind, ref, r, token=token, private=private, **kw)
        if hasattr(self, "tweak_template"): tmpl = self.tweak_template(kind, tmpl)
        self.info[ref] = info
        ok = self.can_create(pid, s, token, private)
        self.emit({"f": "C_CreateObject", "s": s.ref, "tmpl": tmpl, "out": ref}, tid, ok=ok)
        if ok:
            o = self.w.objs[ref]; o.secret = dict(info["secret"])
        return ref

    def s_destroy(self, tid=0, pid=1, obj=None, sess=None):
        r = self.r
        live = self.live_sessions(pid); lo = self.live_objs(pid)
        if not live or not lo: return False
        o = obj or r.choice(lo)
        cands = [s for s in live if s.tok == o.tok] or live
        s = sess or r.choice(cands)
        ok = self.can_write(pid, s, o)
        self.emit({"f": "C_DestroyObject", "s": s.ref, "o": o.ref}, tid, ok=ok)
        return True

    def can_write(self, pid, s, o):
        lg = self.P(pid).login.get(s.tok)
        if o.private and lg != "U": return False
        if o.token and not s.rw: return False
        return o.ref in self.P(pid).h2obj.values() and getattr(o, "destroyable", True)

    def s_copy(self, tid=0, pid=1, obj=None):
        r = self.r
        live = self.live_sessions(pid); lo = self.live_objs(pid)
        if not live or not lo or len(lo) >= self.max_objs: return False
        o = obj or r.choice(lo)
        s = r.choice([x for x in live if x.tok == o.tok] or live)
        ref = self.new_obj()
        token = (r.random() < 0.5) or getattr(self, 'force_token', False)
        private = o.private if r.random() < 0.7 else (not o.private)
        tmpl = [A_bytes(K.CKA_LABEL, objs.label(ref)), A_bool(K.CKA_TOKEN, token)]
        if private != o.private or r.random() < 0.3: tmpl.append(A_bool(K.CKA_PRIVATE, private))
        lg = self.P(pid).login.get(s.tok)
        ok = (o.ref in self.P(pid).h2obj.values()) and not (o.private and lg != "U") and not (private and lg != "U") and not (token and not s.rw) and not (o.private and not private)
        self.emit({"f": "C_CopyObject", "s": s.ref, "o": o.ref, "tmpl": tmpl, "out": ref}, tid, ok=ok)
        if ok and o.ref in self.info: self.info[ref] = self.info[o.ref]
        return ref

    def s_setlabel(self, tid=0, pid=1, obj=None):
        r = self.r
        live = self.live_sessions(pid); lo = self.live_objs(pid)
        if not live or not lo: return False
        o = obj or r.choice(lo)
        s = r.choice([x for x in live if x.tok == o.tok] or live)
        suffix = ":" + "".join(r.choice("abcdefgh") for _ in range(r.randint(1, 6)))
        ok = self.can_write(pid, s, o) and o.modifiable
        self.emit({"f": "C_SetAttributeValue", "s": s.ref, "o": o.ref, "tmpl": [A_bytes(K.CKA_LABEL, objs.label(o.ref, suffix))]}, tid, ok=ok)
        return True

    def s_restart(self, tid=0, pid=1):
        self.emit({"act": "restart"}, tid)
        return True

    def s_find(self, tid=0, pid=1, tmpl=None, batches=None, sess=None):
        live = self.live_sessions(pid)
        if not live: return False
        s = sess or self.r.choice(live)
        self.emit({"act": "find", "s": s.ref, "tmpl": tmpl or [], "batches": batches or []}, tid)
        return True

    def step(self, weights, tid=0, pid=1):
        """weights: dict name->weight over the s_* steps"""
        r = self.r
        names = list(weights); tot = sum(weights.values())
        for _ in range(8):
            x = r.random() * tot; acc = 0
            for n in names:
                acc += weights[n]
                if x < acc: break
            if getattr(self, "s_" + n)(tid, pid):
                if self.after_each: self.after_each(tid, pid)
                return n
        return None
