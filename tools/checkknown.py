#!/usr/bin/env python3
"""development aid: replay every known finding of known_findings.jsonl and say whether its replay still demonstrates it (a stale replay is regenerated with ./check mkknown)"""
import sys, os, json
sys.path.insert(0, os.path.dirname(os.path.abspath(__file__)))
import check
def main():
    only = sys.argv[1:] 
    byprop = {}
    for ln in open(os.path.join(check.VERIF, "known_findings.jsonl")):
        ln = ln.strip()
        if not ln or ln.startswith("#"): continue
        k = json.loads(ln)
        if k.get("status") == "known" and (not only or k["property"] in only): byprop.setdefault(k["property"], []).append(k)
    for prop, ks in sorted(byprop.items()):
        mod = check.load_prop(prop); check.build_all(mod); z = check.make_runner(mod)
        for k in ks:
            plan = json.load(open(os.path.join(check.VERIF, k["replay"])))["plan"]
            r = z.run(plan); viols, _ = check.eval_run(mod, plan, r)
            hit = [v for v in viols if check.sig_match(k["signature"], v)]
            print("%-28s %s" % (k["id"], "reproduces" if hit else "STALE (seen: %s)" % [(v.get("class"), v.get("manifestation")) for v in viols][:3]), flush=True)
        if hasattr(z, "close"): z.close()
main()
