"""C11 - handles are never reused and die exactly with what they denote (DESIGN 4, C11)."""
import p11const as K
from workload import OW
from model import World
import hist

LEVEL = "exploration"
QUICK_RUNS = 1200
QUICK_BUDGET_S = 75
THOROUGH_RUNS = 10 ** 7
RULE = ("seeded histories of session open/close/close-all, login/logout, creation/copy/search/destruction of token and session objects (public and "
        "private, 9 object kinds) over several sessions and 1-2 tokens with restarts; after EVERY call every session and object handle the library "
        "instance ever issued is probed (C_GetSessionInfo / C_GetObjectSize + label read-back) and compared with the liveness the statement prescribes. "
        "Distinct+non-trivial: (operation, what kind of handles died per the model, outcome) with at least one dead and one live handle probed.")
PROBES = ["dead_session_probed", "dead_object_probed", "live_object_probed", "logout_killed_private", "lastclose_killed_all", "sessobj_died_with_session", "destroy_killed", "refind_new_handle", "new_handle_checked"]
DEATH_IS_VIOLATION = ()

W = {"open": 14, "close": 10, "closeall": 2, "login": 10, "logout": 7, "create": 22, "destroy": 8, "copy": 6, "find": 10, "restart": 1.5, "setlabel": 2}

def gen(seed, tier, index):
    g = OW(seed, "C11")
    r = g.r
    g.max_objs = 10
    g.begin()
    def probe(tid, pid):
        live = g.live_sessions(pid)
        via = [r.choice(live).ref] if live else []
        g.emit({"act": "probe_handles", "via": via}, tid)
    g.after_each = probe
    for t in g.toks():
        g.s_open(tok=t, rw=True)
    if r.random() < 0.8: g.s_login(user=K.CKU_USER)
    n = r.choice([6, 10, 16, 24, 40]) if tier == "quick" else r.choice([10, 20, 40, 80])
    if index % 4 == 1 and g.P().login.get(g.toks()[0]) == "U":
        # stratum: handles of objects whose privacy differs from their source's (copy public -> private and private -> private), then a logout with
        # sessions still open: the copy's handle has to die like that of any other private object
        from p11const import A_bool, A_bytes
        import objs
        t0 = g.toks()[0]; s0 = [s for s in g.live_sessions(1, t0) if s.rw][0]
        for _ in range(r.choice([1, 2])):
            src = g.s_create(kind=r.choice(["aes", "data", "generic"]), token=r.random() < 0.7, private=r.random() < 0.3, sess=s0)
            if not src or src not in g.w.objs: continue
            ref = g.new_obj()
            g.emit({"f": "C_CopyObject", "s": s0.ref, "o": src, "tmpl": [A_bytes(K.CKA_LABEL, objs.label(ref)), A_bool(K.CKA_TOKEN, r.random() < 0.7), A_bool(K.CKA_PRIVATE, True)], "out": ref})
        if len(g.live_sessions(1, t0)) < 2: g.s_open(tok=t0)
        g.emit({"f": "C_Logout", "s": s0.ref})
        if r.random() < 0.7: g.s_login(user=K.CKU_USER, tok=t0)
    for _ in range(n):
        if len(g.P().issued_obj) > 60: break
        g.step(W)
    return g.plan()

def _v(cls, msg, **kw):
    d = {"class": cls, "msg": msg}; d.update(kw); return d

def check(plan, r):
    viols = []; cov = set(); stats = {}
    def st(k, n=1): stats[k] = stats.get(k, 0) + n
    w = World()
    pids = hist.pid_track(plan)
    issued = {}    # pid -> {handle value: ("S"|"O", ref)} every value ever returned as a handle by this instance
    for tid, k, op, ret in hist.walk(plan, r):
        pid = pids[tid][k]; P = w.proc(pid)
        f = hist.opname(op); rv = ret.get("rv"); ok = rv == 0
        iss = issued.setdefault(pid, {})
        if f in ("@start", "@restart", "@stop"):
            iss.clear()
        before_live_obj = dict(P.h2obj); before_live_sess = dict(P.h2sess)
        # --- new handles must be numerically unused
        newh = []
        if ok and f == "C_OpenSession": newh.append(("S", ret.get("h"), op.get("out")))
        if ok and f in ("C_CreateObject", "C_CopyObject", "C_GenerateKey", "C_UnwrapKey", "C_DeriveKey"): newh.append(("O", ret.get("h"), op.get("out")))
        for kind, h, ref in newh:
            st("new_handle_checked")
            if h in iss:
                viols.append(_v("C11.handle_reused", "%s returned handle %d which this library instance already issued for %s" % (f, h, iss[h]), call=f, op=k, handle=h))
            if h == 0:
                viols.append(_v("C11.invalid_handle_returned", "%s returned CKR_OK with handle 0" % f, call=f, op=k))
            iss[h] = (kind, ref)
        w.apply(pid, op, ret)
        if f in ("@find", "@readout") and ok:
            for e in ret.get("ids", []):
                h = e["h"]; ref = e.get("ref")
                if h in iss:
                    kind, oref = iss[h]
                    if kind == "S" or (ref and oref and oref != ref):
                        viols.append(_v("C11.handle_reused", "search returned handle %d for %s, already issued for %s" % (h, ref, iss[h]), call="C_FindObjects", op=k, handle=h))
                    elif ref and oref == ref and h in P.dead_obj_handles and h not in P.h2obj:
                        pass
                    if ref and oref == ref and h in before_live_obj: pass
                else:
                    if ref and ref in before_live_obj.values(): pass
                    if ref and any(rr == ref for rr in w.proc(pid).issued_obj.values()): st("refind_new_handle")
                    iss[h] = ("O", ref)
        # classify what died (coverage)
        died_o = set(before_live_obj) - set(P.h2obj); died_s = set(before_live_sess) - set(P.h2sess)
        if f == "C_Logout" and died_o: st("logout_killed_private")
        if f in ("C_CloseSession", "C_CloseAllSessions") and died_o:
            if any(not w.objs[before_live_obj[h]].token for h in died_o if before_live_obj[h] in w.objs): st("sessobj_died_with_session")
            if any(w.objs[before_live_obj[h]].token for h in died_o if before_live_obj[h] in w.objs): st("lastclose_killed_all")
        if f == "C_DestroyObject" and died_o: st("destroy_killed")
        if f != "@probe_handles":
            cov.add("%s|%s|do%d|ds%d" % (f, "ok" if ok else "fail", min(len(died_o), 3), min(len(died_s), 2)))
            last = (f, k)
            continue
        # --- the probe: every handle ever issued
        for e in ret.get("sessions", []):
            h, prv = e[0], e[1]
            if h in P.h2sess:
                if prv != 0:
                    viols.append(_v("C11.live_session_rejected", "session handle %d (%s) must still work after %s but C_GetSessionInfo returned %s" % (h, P.h2sess[h], last[0], K.rvname(prv)), call=last[0], op=last[1], handle=h))
            elif h in P.dead_sess_handles:
                st("dead_session_probed")
                if prv != K.CKR_SESSION_HANDLE_INVALID:
                    viols.append(_v("C11.dead_session_accepted", "closed session handle %d answered %s to C_GetSessionInfo after %s" % (h, K.rvname(prv), last[0]), call=last[0], op=last[1], handle=h))
        for pv in ret.get("objects", []):
            for e in pv.get("objs", []):
                h, prv = e[0], e[1]
                if h in P.h2obj:
                    st("live_object_probed")
                    o = w.objs.get(P.h2obj[h])
                    if prv != 0:
                        viols.append(_v("C11.live_object_rejected", "object handle %d (%s) must keep working after %s but C_GetObjectSize returned %s" % (h, P.h2obj[h], last[0], K.rvname(prv)), call=last[0], op=last[1], handle=h))
                    elif len(e) >= 4 and e[2] == 0:
                        from model import ref_of_label
                        got = ref_of_label(e[3].encode("latin-1") if isinstance(e[3], str) else e[3])
                        if got and got != P.h2obj[h]:
                            viols.append(_v("C11.handle_denotes_other_object", "handle %d was bound to %s but now denotes %s" % (h, P.h2obj[h], got), call=last[0], op=last[1], handle=h))
                elif h in P.dead_obj_handles:
                    st("dead_object_probed")
                    if prv != K.CKR_OBJECT_HANDLE_INVALID:
                        viols.append(_v("C11.dead_object_accepted", "handle %d must be invalid after %s but C_GetObjectSize returned %s" % (h, last[0], K.rvname(prv)), call=last[0], op=last[1], handle=h))
    r.aux["c11"] = (cov, stats)
    return viols[:5]

def cover(plan, r):
    cov, stats = r.aux.get("c11", (set(), {}))
    return {"keys": sorted(cov), "nontrivial": stats.get("dead_object_probed", 0) + stats.get("dead_session_probed", 0) > 0 and stats.get("live_object_probed", 0) > 0, "stats": stats}

TECHNIQUE = "deterministic simulation: seeded history search with a reference model of handle liveness; every handle ever issued is probed after every call"
CLAIM = ("Seeded exploration of session/object histories executed by the real library in the simulator; the model keeps every handle value ever issued with "
         "its binding and the liveness the statement prescribes, and after every call all of them are probed with side-effect-free calls. New handles are "
         "checked to be numerically unused since C_Initialize. Evidence, not proof.")
NOTE = "Trusted: reference model of liveness transitions (tools/model.py); object identity is read back through the harness tag in CKA_LABEL. Destruction by another process is covered in C15."
