"""C03 - session and login state machine (DESIGN 4, C03)."""
import p11const as K
from gen import G, RW, RO
from model import World
import hist

LEVEL = "exploration"
QUICK_RUNS = 1500
QUICK_BUDGET_S = 75
THOROUGH_RUNS = 10 ** 7
RULE = ("seeded random walks (length 5-60, short ones dominate) over C_OpenSession(RO/RW), C_CloseSession, C_CloseAllSessions, "
        "C_Login(USER/SO/CONTEXT_SPECIFIC, right/wrong/other PIN), C_Logout, C_InitToken, C_InitPIN, C_SetPIN and restarts over <=4 sessions "
        "on 1-2 tokens, executed by the real library on the simulated disk; after EVERY call all session handles are read out with "
        "C_GetSessionInfo and compared with the reference model. A case is distinct+non-trivial per (model login state, #RO, #RW sessions of the "
        "token, operation, outcome) reached with at least one predicate evaluated.")
PROBES = ["login_ok", "login_refused_wrongpin", "so_refused_ro_exists", "ro_refused_so", "inittoken_refused_session", "last_close_logout", "closeall_logout", "failed_call_state_checked", "restart"]
DEATH_IS_VIOLATION = ()

def gen(seed, tier, index):
    g = G(seed, "C03")
    r = g.r
    g.emit({"act": "start"})
    ntok = 1 if r.random() < 0.6 else 2
    pins = {}
    for _ in range(ntok):
        so = g.pin(); up = g.pin()
        have_user = r.random() < 0.85
        t = g.setup_token(user_pin=have_user, so_pin=so, upin=up)
        pins[t] = [so, up if have_user else None]
    n = r.choice([3, 5, 5, 8, 8, 12, 12, 20, 30, 60]) if tier == "quick" else r.choice([5, 8, 12, 20, 30, 60, 100])
    toks = list(pins)
    probe = {"act": "probe_handles", "via": []}
    g.emit(dict(probe))
    for _ in range(n):
        w = g.w; P = w.proc(1)
        t = r.choice(toks)
        live = [s for s in P.sessions.values()]
        live_t = [s for s in live if s.tok == t]
        allrefs = ["S%d" % k for k in range(1, g.n_sess + 1)]
        x = r.random()
        if x < 0.22 and len(live_t) < 4:
            s = g.new_sess(); rw = r.random() < 0.6
            would = not (not rw and P.login.get(t) == "S")
            g.emit({"f": "C_OpenSession", "slot": t, "flags": RW if rw else RO, "out": s}, ok=would)
        elif x < 0.32 and allrefs:
            s = r.choice([x_.ref for x_ in live] if live and r.random() < 0.8 else allrefs)
            g.emit({"f": "C_CloseSession", "s": s}, ok=s in P.sessions)
        elif x < 0.36:
            g.emit({"f": "C_CloseAllSessions", "slot": t})
        elif x < 0.62 and live:
            s = r.choice(live_t or live)
            tk = s.tok
            user = r.choice([K.CKU_USER, K.CKU_USER, K.CKU_SO, K.CKU_SO, K.CKU_CONTEXT_SPECIFIC])
            cur = w.toks[tk].so_pin if user == K.CKU_SO else w.toks[tk].user_pin
            y = r.random()
            if user == K.CKU_CONTEXT_SPECIFIC:
                pin = (w.toks[tk].user_pin or b"nonesuch"); ok = False
            elif y < 0.65 and cur is not None:
                pin = cur
                ok = P.login.get(tk) is None and not (user == K.CKU_SO and any(not z.rw for z in w.sessions_on(1, tk)))
            elif y < 0.8:
                other = w.toks[tk].user_pin if user == K.CKU_SO else w.toks[tk].so_pin
                pin = other or b"otherpin"; ok = (pin == cur and P.login.get(tk) is None)
            else:
                pin = g.near_pin(cur or b"abcd"); ok = False
            g.emit({"f": "C_Login", "s": s.ref, "user": user, "pin": pin.hex()}, ok=ok)
        elif x < 0.74 and (live or allrefs):
            s = r.choice([z.ref for z in live]) if live and r.random() < 0.9 else r.choice(allrefs)
            g.emit({"f": "C_Logout", "s": s}, ok=s in P.sessions)
        elif x < 0.80:
            so = w.toks[t].so_pin
            pin = so if r.random() < 0.7 else g.near_pin(so)
            ok = (pin == so) and not live_t
            g.emit({"f": "C_InitToken", "slot": t, "pin": pin.hex(), "label": t + r.choice(["", "b", " x"]), "out": t}, ok=ok)
        elif x < 0.86 and live:
            s = r.choice(live_t or live)
            np_ = g.pin()
            g.emit({"f": "C_InitPIN", "s": s.ref, "pin": np_.hex()}, ok=P.login.get(s.tok) == "S")
        elif x < 0.94 and live:
            s = r.choice(live_t or live)
            st = P.login.get(s.tok)
            cur = w.toks[s.tok].so_pin if st == "S" else w.toks[s.tok].user_pin
            old = cur if (cur is not None and r.random() < 0.7) else g.near_pin(cur or b"abcd")
            np_ = g.pin()
            g.emit({"f": "C_SetPIN", "s": s.ref, "old": old.hex(), "new": np_.hex()}, ok=(s.rw and old == cur))
        elif x >= 0.94 and x < 0.96:
            g.emit({"act": "restart"})
        elif x >= 0.96 and live:
            g.emit({"f": "C_GetSessionInfo", "s": r.choice(live).ref})
        else:
            s = g.new_sess(); rw = r.random() < 0.6
            if len(live_t) >= 4: continue
            would = not (not rw and P.login.get(t) == "S")
            g.emit({"f": "C_OpenSession", "slot": t, "flags": RW if rw else RO, "out": s}, ok=would)
        g.emit(dict(probe))
    return g.plan()

def _v(cls, msg, **kw):
    d = {"class": cls, "msg": msg}; d.update(kw); return d

def check(plan, r):
    viols = []
    w = World()
    cov = set(); stats = {}
    def st(k): stats[k] = stats.get(k, 0) + 1
    pids = hist.pid_track(plan)
    for tid, k, op, ret in hist.walk(plan, r):
        pid = pids[tid][k]
        P = w.proc(pid)
        f = hist.opname(op); rv = ret.get("rv")
        ok = rv == 0
        s = w.sess(pid, op.get("s")) if "s" in op else None
        if f == "C_Login" and s is not None and op.get("user") in (K.CKU_USER, K.CKU_SO):
            tk = w.toks.get(s.tok)
            if tk is not None:
                user = op["user"]; pin = bytes.fromhex(op["pin"])
                cur = tk.so_pin if user == K.CKU_SO else tk.user_pin
                nobody = P.login.get(s.tok) is None
                ro_exists = any(not z.rw for z in w.sessions_on(pid, s.tok))
                expect = (cur is not None and pin == cur and nobody and not (user == K.CKU_SO and ro_exists))
                nro = sum(1 for z in w.sessions_on(pid, s.tok) if not z.rw); nrw = len(w.sessions_on(pid, s.tok)) - nro
                cov.add("login|%s|%s|ro%d|rw%d|%s|%s" % (P.login.get(s.tok), user, min(nro, 2), min(nrw, 2), "right" if pin == cur else "wrong", ok))
                if ok and not expect:
                    why = "wrong PIN" if pin != cur else "somebody already logged in" if not nobody else "RO session exists (SO login)" if (user == K.CKU_SO and ro_exists) else "user PIN not initialised"
                    viols.append(_v("C03.login_accepted", "C_Login(user=%d) returned CKR_OK although it must be refused: %s" % (user, why), call="C_Login", op=k, why=why))
                elif not ok and expect:
                    viols.append(_v("C03.login_refused", "C_Login(user=%d) with the correct PIN and nobody logged in returned %s" % (user, K.rvname(rv)), call="C_Login", op=k, rv=K.rvname(rv)))
                if expect and ok: st("login_ok")
                if not ok and pin != cur: st("login_refused_wrongpin")
                if not ok and user == K.CKU_SO and ro_exists and pin == cur and nobody:
                    st("so_refused_ro_exists")
                    if rv != K.CKR_SESSION_READ_ONLY_EXISTS:
                        viols.append(_v("C03.login_code", "SO login with an RO session open returned %s, expected CKR_SESSION_READ_ONLY_EXISTS" % K.rvname(rv), call="C_Login", op=k))
        elif f == "C_OpenSession":
            tok = op.get("slot")
            if tok in w.toks and P.inited and not ret.get("unres"):
                rw = bool(op["flags"] & K.CKF_RW_SESSION)
                so_in = P.login.get(tok) == "S"
                cov.add("open|%s|%s|%s" % (P.login.get(tok), "rw" if rw else "ro", ok))
                if not rw and so_in:
                    st("ro_refused_so")
                    if ok:
                        viols.append(_v("C03.ro_open_while_so", "read-only session opened while the SO is logged in", call="C_OpenSession", op=k))
                    elif rv != K.CKR_SESSION_READ_WRITE_SO_EXISTS:
                        viols.append(_v("C03.open_code", "RO open while SO logged in returned %s" % K.rvname(rv), call="C_OpenSession", op=k))
                elif not ok:
                    viols.append(_v("C03.open_refused", "C_OpenSession on an initialised token returned %s" % K.rvname(rv), call="C_OpenSession", op=k, rv=K.rvname(rv)))
        elif f == "C_InitToken":
            tok = op.get("slot")
            if tok in w.toks and not ret.get("unres"):
                have = bool(w.sessions_on(pid, tok))
                cov.add("inittoken|sess%d|%s" % (have, ok))
                if have:
                    st("inittoken_refused_session")
                    if ok:
                        viols.append(_v("C03.inittoken_with_session", "C_InitToken succeeded while a session is open on the slot", call="C_InitToken", op=k))
                    elif rv != K.CKR_SESSION_EXISTS:
                        viols.append(_v("C03.inittoken_code", "C_InitToken with open session returned %s, expected CKR_SESSION_EXISTS" % K.rvname(rv), call="C_InitToken", op=k))
        elif f == "C_CloseSession" and s is not None and ok:
            if len(w.sessions_on(pid, s.tok)) == 1 and P.login.get(s.tok): st("last_close_logout")
            cov.add("close|%s|n%d" % (P.login.get(s.tok), min(len(w.sessions_on(pid, s.tok)), 3)))
        elif f == "C_CloseAllSessions" and ok:
            if P.login.get(op.get("slot")): st("closeall_logout")
            cov.add("closeall|%s" % P.login.get(op.get("slot")))
        elif f == "C_Logout" and s is not None:
            cov.add("logout|%s|%s" % (P.login.get(s.tok), ok))
            if not ok:
                viols.append(_v("C03.logout_failed", "C_Logout on a live session returned %s" % K.rvname(rv), call="C_Logout", op=k))
        elif f in ("C_SetPIN", "C_InitPIN") and s is not None:
            cov.add("%s|%s|%s" % (f, w.state_of(pid, s.ref), ok))
        elif f == "@restart":
            st("restart")
        if f not in ("@probe_handles",) and rv not in (0, None):
            last_failed = f
        elif f != "@probe_handles":
            last_failed = None
        w.apply(pid, op, ret)
        if f == "@probe_handles":
            # every live session must report the model's state; all sessions of a token agree by construction of the model
            seen = {e[0]: e for e in ret.get("sessions", [])}
            for sref, sess in P.sessions.items():
                e = seen.get(sess.handle)
                if e is None:
                    continue
                exp = w.state_of(pid, sref)
                if e[1] != 0:
                    viols.append(_v("C03.session_lost", "live session %s (handle %d) answers %s to C_GetSessionInfo" % (sref, sess.handle, K.rvname(e[1])), call="C_GetSessionInfo", op=k, after=locals().get("last_failed")))
                elif e[3] != exp:
                    viols.append(_v("C03.state_mismatch", "session %s on %s reports state %s, the PKCS#11 rules give %s (login=%s)%s" % (
                        sref, sess.tok, K.name("CKS", e[3]), K.name("CKS", exp), P.login.get(sess.tok),
                        (" after failed " + last_failed) if locals().get("last_failed") else ""), call="C_GetSessionInfo", op=k, got=K.name("CKS", e[3]), want=K.name("CKS", exp), after_failed=bool(locals().get("last_failed"))))
                if locals().get("last_failed"): st("failed_call_state_checked")
                st("state_compared")
    r.aux["c03"] = (cov, stats)
    return viols[:5]

def cover(plan, r):
    cov, stats = r.aux.get("c03", (set(), {}))
    return {"keys": sorted(cov), "nontrivial": stats.get("state_compared", 0) > 0, "stats": stats}

TECHNIQUE = "deterministic simulation: seeded call-sequence search against a sequential reference model of the session/login state machine, full session read-out after every call"
CLAIM = ("Seeded exploration: thousands of random session/login walks per run are executed by the real library inside the simulator; every call's "
         "accept/refuse outcome named in the statement is predicted by a reference model and, after every call (failed ones included), the state of "
         "every open session is read back and compared. Evidence, not proof; the bounded-exhaustive part of the quantifier is covered statistically (coverage keys report what was reached).")
NOTE = "Trusted: the reference model (tools/model.py), the simulator's stubbed kernel/RNG; one simulated process, one caller thread in this check (threads: C18, processes: C15)."
