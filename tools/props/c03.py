"""C03 - session and login state machine (DESIGN 4, C03)."""
import p11const as K
from gen import G, RW, RO
from model import World
import hist

LEVEL = "exploration"
QUICK_RUNS = 2900
QUICK_BUDGET_S = 75
THOROUGH_RUNS = 10 ** 7
RULE = ("exhaustive stratum first: every sequence of 18 abstract actions up to length 2 (quick: 1368 plans) / 3 (thorough: 24696 plans) after each of four prefixes on two tokens; then "
        "seeded random walks (length 5-60, short ones dominate) over C_OpenSession(RO/RW), C_CloseSession, C_CloseAllSessions, "
        "C_Login(USER/SO/CONTEXT_SPECIFIC, right/wrong/other PIN), C_Logout, C_InitToken, C_InitPIN, C_SetPIN and restarts over <=4 sessions "
        "on 1-2 tokens, executed by the real library on the simulated disk; after EVERY call all session handles are read out with "
        "C_GetSessionInfo and compared with the reference model. A case is distinct+non-trivial per (model login state, #RO, #RW sessions of the "
        "token, operation, outcome) reached with at least one predicate evaluated.")
PROBES = ["login_ok", "login_refused_wrongpin", "so_refused_ro_exists", "ro_refused_so", "inittoken_refused_session", "last_close_logout", "closeall_logout", "failed_call_state_checked", "restart", "enumerated_plans", "call_under_fault", "failed_under_fault"]
DEATH_IS_VIOLATION = ()

# ---- exhaustive stratum (the quantifier asks for "exhaustively up to a bounded length, randomly beyond"): every sequence of abstract actions up to length
# 2 (quick) / 3 (thorough) after each of four prefixes, on two tokens A and B. The seeded random walks come after these indices.
ALPHA = ["openRO_A", "openRW_A", "openRW_B", "close_first_A", "close_last", "closeall_A", "login_user_ok", "login_user_wrong", "login_so_ok", "login_so_wrong", "login_ctx",
         "login_user_ok_B", "logout", "inittoken_A", "initpin", "setpin_ok", "setpin_wrong", "restart"]
PREFIXES = [[], ["openRW_A"], ["openRW_A", "login_user_ok"], ["openRO_A", "openRW_A", "login_so_ok"]]
def enum_total(tier):
    L = 2 if tier == "quick" else 3
    return len(PREFIXES) * sum(len(ALPHA) ** k for k in range(1, L + 1))

def enum_seq(tier, index):
    L = 2 if tier == "quick" else 3
    per = sum(len(ALPHA) ** k for k in range(1, L + 1))
    pre = PREFIXES[index // per]; j = index % per
    for k in range(1, L + 1):
        if j < len(ALPHA) ** k:
            seq = []
            for _ in range(k): seq.append(ALPHA[j % len(ALPHA)]); j //= len(ALPHA)
            return pre + seq
        j -= len(ALPHA) ** k

def act(g, name, A, B):
    w = g.w; P = w.proc(1)
    live = list(P.sessions.values()); liveA = [s for s in live if s.tok == A]; liveB = [s for s in live if s.tok == B]
    def login(s, user, right):
        tk = s.tok; cur = w.toks[tk].so_pin if user == K.CKU_SO else w.toks[tk].user_pin
        pin = cur if (right and cur is not None) else g.near_pin(cur or b"abcd")
        ok = right and cur is not None and P.login.get(tk) is None and not (user == K.CKU_SO and any(not z.rw for z in w.sessions_on(1, tk)))
        g.emit({"f": "C_Login", "s": s.ref, "user": user, "pin": pin.hex()}, ok=ok)
    if name.startswith("open"):
        t = A if name.endswith("_A") else B; rw = "RW" in name; s = g.new_sess()
        g.emit({"f": "C_OpenSession", "slot": t, "flags": RW if rw else RO, "out": s}, ok=not (not rw and P.login.get(t) == "S"))
    elif name == "close_first_A": g.emit({"f": "C_CloseSession", "s": liveA[0].ref if liveA else "S1"}, ok=bool(liveA) or "S1" in P.sessions)
    elif name == "close_last":
        ref = live[-1].ref if live else "S1"; g.emit({"f": "C_CloseSession", "s": ref}, ok=ref in P.sessions)
    elif name == "closeall_A": g.emit({"f": "C_CloseAllSessions", "slot": A})
    elif name in ("login_user_ok", "login_user_wrong", "login_so_ok", "login_so_wrong", "login_ctx"):
        if not liveA: g.emit({"f": "C_Login", "s": "S1", "user": K.CKU_USER, "pin": (w.toks[A].user_pin or b"nonesuch").hex()}, ok=False); return
        s = liveA[-1]
        if name == "login_ctx": g.emit({"f": "C_Login", "s": s.ref, "user": K.CKU_CONTEXT_SPECIFIC, "pin": (w.toks[A].user_pin or b"nonesuch").hex()}, ok=False)
        else: login(s, K.CKU_SO if "_so_" in name else K.CKU_USER, name.endswith("_ok"))
    elif name == "login_user_ok_B":
        if liveB: login(liveB[-1], K.CKU_USER, True)
        else: g.emit({"f": "C_GetSessionInfo", "s": "S1"}, ok="S1" in P.sessions)
    elif name == "logout":
        ref = liveA[-1].ref if liveA else (live[-1].ref if live else "S1"); g.emit({"f": "C_Logout", "s": ref}, ok=ref in P.sessions)
    elif name == "inittoken_A": g.emit({"f": "C_InitToken", "slot": A, "pin": w.toks[A].so_pin.hex(), "label": A, "out": A}, ok=not liveA)
    elif name == "initpin":
        ref = liveA[-1].ref if liveA else "S1"; g.emit({"f": "C_InitPIN", "s": ref, "pin": g.pin().hex()}, ok=bool(liveA) and P.login.get(A) == "S")
    elif name in ("setpin_ok", "setpin_wrong"):
        if not liveA: g.emit({"f": "C_SetPIN", "s": "S1", "old": b"abcd".hex(), "new": g.pin().hex()}, ok=False); return
        s = liveA[-1]; st_ = P.login.get(A); cur = w.toks[A].so_pin if st_ == "S" else w.toks[A].user_pin
        old = cur if (name == "setpin_ok" and cur is not None) else g.near_pin(cur or b"abcd")
        g.emit({"f": "C_SetPIN", "s": s.ref, "old": old.hex(), "new": g.pin().hex()}, ok=(s.rw and old == cur))
    elif name == "restart": g.emit({"act": "restart"})

def gen_enum(seed, tier, index):
    g = G(seed, "C03"); g.emit({"act": "start"})
    A = g.setup_token(user_pin=True, so_pin=g.pin(), upin=g.pin()); B = g.setup_token(user_pin=True, so_pin=g.pin(), upin=g.pin())
    probe = {"act": "probe_handles", "via": []}
    g.emit(dict(probe))
    seq = enum_seq(tier, index)
    for name in seq:
        act(g, name, A, B); g.emit(dict(probe))
    g.extra["enumerated"] = seq
    return g.plan()

def gen(seed, tier, index):
    if index < enum_total(tier): return gen_enum(seed, tier, index)
    g = G(seed, "C03")
    r = g.r
    g.emit({"act": "start"})
    ntok = 1 if r.random() < 0.6 else 2
    pins = {}
    for _ in range(ntok):
        so = g.pin(); up = g.pin()
        have_user = r.random() < 0.85
        t = g.setup_token(user_pin=have_user, so_pin=so, upin=up)
        pins[t] = [so, up if have_user else None]
    n = r.choice([3, 5, 5, 8, 8, 12, 12, 20, 30, 60]) if tier == "quick" else r.choice([5, 8, 12, 20, 30, 60, 100])
    toks = list(pins)
    probe = {"act": "probe_handles", "via": []}
    g.emit(dict(probe))
    for _ in range(n):
        w = g.w; P = w.proc(1)
        t = r.choice(toks)
        live = [s for s in P.sessions.values()]
        live_t = [s for s in live if s.tok == t]
        allrefs = ["S%d" % k for k in range(1, g.n_sess + 1)]
        x = r.random()
        if x < 0.22 and len(live_t) < 4:
            s = g.new_sess(); rw = r.random() < 0.6
            would = not (not rw and P.login.get(t) == "S")
            g.emit({"f": "C_OpenSession", "slot": t, "flags": RW if rw else RO, "out": s}, ok=would)
        elif x < 0.32 and allrefs:
            s = r.choice([x_.ref for x_ in live] if live and r.random() < 0.8 else allrefs)
            g.emit({"f": "C_CloseSession", "s": s}, ok=s in P.sessions)
        elif x < 0.36:
            g.emit({"f": "C_CloseAllSessions", "slot": t})
        elif x < 0.62 and live:
            s = r.choice(live_t or live)
            tk = s.tok
            user = r.choice([K.CKU_USER, K.CKU_USER, K.CKU_SO, K.CKU_SO, K.CKU_CONTEXT_SPECIFIC])
            cur = w.toks[tk].so_pin if user == K.CKU_SO else w.toks[tk].user_pin
            y = r.random()
            if user == K.CKU_CONTEXT_SPECIFIC:
                pin = (w.toks[tk].user_pin or b"nonesuch"); ok = False
            elif y < 0.65 and cur is not None:
                pin = cur
                ok = P.login.get(tk) is None and not (user == K.CKU_SO and any(not z.rw for z in w.sessions_on(1, tk)))
            elif y < 0.8:
                other = w.toks[tk].user_pin if user == K.CKU_SO else w.toks[tk].so_pin
                pin = other or b"otherpin"; ok = (pin == cur and P.login.get(tk) is None)
            else:
                pin = g.near_pin(cur or b"abcd"); ok = False
            g.emit({"f": "C_Login", "s": s.ref, "user": user, "pin": pin.hex()}, ok=ok)
        elif x < 0.74 and (live or allrefs):
            s = r.choice([z.ref for z in live]) if live and r.random() < 0.9 else r.choice(allrefs)
            g.emit({"f": "C_Logout", "s": s}, ok=s in P.sessions)
        elif x < 0.80:
            so = w.toks[t].so_pin
            pin = so if r.random() < 0.7 else g.near_pin(so)
            ok = (pin == so) and not live_t
            g.emit({"f": "C_InitToken", "slot": t, "pin": pin.hex(), "label": t + r.choice(["", "b", " x"]), "out": t}, ok=ok)
        elif x < 0.86 and live:
            s = r.choice(live_t or live)
            np_ = g.pin()
            g.emit({"f": "C_InitPIN", "s": s.ref, "pin": np_.hex()}, ok=P.login.get(s.tok) == "S")
        elif x < 0.94 and live:
            s = r.choice(live_t or live)
            st = P.login.get(s.tok)
            cur = w.toks[s.tok].so_pin if st == "S" else w.toks[s.tok].user_pin
            old = cur if (cur is not None and r.random() < 0.7) else g.near_pin(cur or b"abcd")
            np_ = g.pin()
            g.emit({"f": "C_SetPIN", "s": s.ref, "old": old.hex(), "new": np_.hex()}, ok=(s.rw and old == cur))
        elif x >= 0.94 and x < 0.96:
            g.emit({"act": "restart"})
        elif x >= 0.96 and live:
            g.emit({"f": "C_GetSessionInfo", "s": r.choice(live).ref})
        else:
            s = g.new_sess(); rw = r.random() < 0.6
            if len(live_t) >= 4: continue
            would = not (not rw and P.login.get(t) == "S")
            g.emit({"f": "C_OpenSession", "slot": t, "flags": RW if rw else RO, "out": s}, ok=would)
        g.emit(dict(probe))
    if index % 6 == 5:
        # fault stratum: the walk ends with ONE call that writes the token file (C_SetPIN, C_InitPIN, C_Login) and gets a file-operation fault somewhere in
        # its I/O sequence (position chosen by prepare() after a counting pass). A call that FAILS - for whatever reason - leaves every session's state
        # unchanged. The plan stops there: what an I/O error does to the token file itself is C09's and C16's business.
        w = g.w; P = w.proc(1); live = list(P.sessions.values())
        cands = []
        for s_ in live:
            st_ = P.login.get(s_.tok); tk = w.toks[s_.tok]
            if s_.rw and st_ is None and tk.user_pin is not None: cands.append({"f": "C_SetPIN", "s": s_.ref, "old": tk.user_pin.hex(), "new": g.pin().hex()})
            if s_.rw and st_ == "U": cands.append({"f": "C_SetPIN", "s": s_.ref, "old": tk.user_pin.hex(), "new": g.pin().hex()})
            if s_.rw and st_ == "S": cands.append({"f": "C_SetPIN", "s": s_.ref, "old": tk.so_pin.hex(), "new": g.pin().hex()}); cands.append({"f": "C_InitPIN", "s": s_.ref, "pin": g.pin().hex()})
            if st_ is None and tk.user_pin is not None: cands.append({"f": "C_Login", "s": s_.ref, "user": K.CKU_USER, "pin": tk.user_pin.hex()})
        if cands:
            g.emit(r.choice(cands))
            g.extra["fault_candidates"] = [len(g.ops[0]) - 1]
            g.emit(dict(probe))
    return g.plan()

def prepare(plan, z):
    from gen import place_faults
    return place_faults(plan, z, plan["seed"])

def _v(cls, msg, **kw):
    d = {"class": cls, "msg": msg}; d.update(kw); return d

def check(plan, r):
    viols = []
    w = World()
    cov = set(); stats = {}
    def st(k): stats[k] = stats.get(k, 0) + 1
    pids = hist.pid_track(plan)
    fault_ops = set(e.get("op") for e in r.hist if e.get("e") == "fs" and e.get("fault"))
    for tid, k, op, ret in hist.walk(plan, r):
        pid = pids[tid][k]
        P = w.proc(pid)
        f = hist.opname(op); rv = ret.get("rv")
        faulted = k in fault_ops
        if faulted: st("call_under_fault"); st("failed_under_fault") if rv not in (0, None) else None
        ok = rv == 0
        s = w.sess(pid, op.get("s")) if "s" in op else None
        if f == "C_Login" and s is not None and op.get("user") in (K.CKU_USER, K.CKU_SO):
            tk = w.toks.get(s.tok)
            if tk is not None:
                user = op["user"]; pin = bytes.fromhex(op["pin"])
                cur = tk.so_pin if user == K.CKU_SO else tk.user_pin
                nobody = P.login.get(s.tok) is None
                ro_exists = any(not z.rw for z in w.sessions_on(pid, s.tok))
                expect = (cur is not None and pin == cur and nobody and not (user == K.CKU_SO and ro_exists))
                nro = sum(1 for z in w.sessions_on(pid, s.tok) if not z.rw); nrw = len(w.sessions_on(pid, s.tok)) - nro
                cov.add("login|%s|%s|ro%d|rw%d|%s|%s" % (P.login.get(s.tok), user, min(nro, 2), min(nrw, 2), "right" if pin == cur else "wrong", ok))
                if ok and not expect:
                    why = "wrong PIN" if pin != cur else "somebody already logged in" if not nobody else "RO session exists (SO login)" if (user == K.CKU_SO and ro_exists) else "user PIN not initialised"
                    viols.append(_v("C03.login_accepted", "C_Login(user=%d) returned CKR_OK although it must be refused: %s" % (user, why), call="C_Login", op=k, why=why))
                elif not ok and expect and not faulted:
                    viols.append(_v("C03.login_refused", "C_Login(user=%d) with the correct PIN and nobody logged in returned %s" % (user, K.rvname(rv)), call="C_Login", op=k, rv=K.rvname(rv)))
                if expect and ok: st("login_ok")
                if not ok and pin != cur: st("login_refused_wrongpin")
                if not ok and user == K.CKU_SO and ro_exists and pin == cur and nobody:
                    st("so_refused_ro_exists")
                    if rv != K.CKR_SESSION_READ_ONLY_EXISTS:
                        viols.append(_v("C03.login_code", "SO login with an RO session open returned %s, expected CKR_SESSION_READ_ONLY_EXISTS" % K.rvname(rv), call="C_Login", op=k))
        elif f == "C_OpenSession":
            tok = op.get("slot")
            if tok in w.toks and P.inited and not ret.get("unres"):
                rw = bool(op["flags"] & K.CKF_RW_SESSION)
                so_in = P.login.get(tok) == "S"
                cov.add("open|%s|%s|%s" % (P.login.get(tok), "rw" if rw else "ro", ok))
                if not rw and so_in:
                    st("ro_refused_so")
                    if ok:
                        viols.append(_v("C03.ro_open_while_so", "read-only session opened while the SO is logged in", call="C_OpenSession", op=k))
                    elif rv != K.CKR_SESSION_READ_WRITE_SO_EXISTS:
                        viols.append(_v("C03.open_code", "RO open while SO logged in returned %s" % K.rvname(rv), call="C_OpenSession", op=k))
                elif not ok:
                    viols.append(_v("C03.open_refused", "C_OpenSession on an initialised token returned %s" % K.rvname(rv), call="C_OpenSession", op=k, rv=K.rvname(rv)))
        elif f == "C_InitToken":
            tok = op.get("slot")
            if tok in w.toks and not ret.get("unres"):
                have = bool(w.sessions_on(pid, tok))
                cov.add("inittoken|sess%d|%s" % (have, ok))
                if have:
                    st("inittoken_refused_session")
                    if ok:
                        viols.append(_v("C03.inittoken_with_session", "C_InitToken succeeded while a session is open on the slot", call="C_InitToken", op=k))
                    elif rv != K.CKR_SESSION_EXISTS:
                        viols.append(_v("C03.inittoken_code", "C_InitToken with open session returned %s, expected CKR_SESSION_EXISTS" % K.rvname(rv), call="C_InitToken", op=k))
        elif f == "C_CloseSession" and s is not None and ok:
            if len(w.sessions_on(pid, s.tok)) == 1 and P.login.get(s.tok): st("last_close_logout")
            cov.add("close|%s|n%d" % (P.login.get(s.tok), min(len(w.sessions_on(pid, s.tok)), 3)))
        elif f == "C_CloseAllSessions" and ok:
            if P.login.get(op.get("slot")): st("closeall_logout")
            cov.add("closeall|%s" % P.login.get(op.get("slot")))
        elif f == "C_Logout" and s is not None:
            cov.add("logout|%s|%s" % (P.login.get(s.tok), ok))
            if not ok:
                viols.append(_v("C03.logout_failed", "C_Logout on a live session returned %s" % K.rvname(rv), call="C_Logout", op=k))
        elif f in ("C_SetPIN", "C_InitPIN") and s is not None:
            cov.add("%s|%s|%s" % (f, w.state_of(pid, s.ref), ok))
        elif f == "@restart":
            st("restart")
        if f not in ("@probe_handles",) and rv not in (0, None):
            last_failed = f
        elif f != "@probe_handles":
            last_failed = None
        w.apply(pid, op, ret)
        if f == "@probe_handles":
            # every live session must report the model's state; all sessions of a token agree by construction of the model
            seen = {e[0]: e for e in ret.get("sessions", [])}
            for sref, sess in P.sessions.items():
                e = seen.get(sess.handle)
                if e is None:
                    continue
                exp = w.state_of(pid, sref)
                if e[1] != 0:
                    viols.append(_v("C03.session_lost", "live session %s (handle %d) answers %s to C_GetSessionInfo" % (sref, sess.handle, K.rvname(e[1])), call="C_GetSessionInfo", op=k, after=locals().get("last_failed")))
                elif e[3] != exp:
                    viols.append(_v("C03.state_mismatch", "session %s on %s reports state %s, the PKCS#11 rules give %s (login=%s)%s" % (
                        sref, sess.tok, K.name("CKS", e[3]), K.name("CKS", exp), P.login.get(sess.tok),
                        (" after failed " + last_failed) if locals().get("last_failed") else ""), call="C_GetSessionInfo", op=k, got=K.name("CKS", e[3]), want=K.name("CKS", exp), after_failed=bool(locals().get("last_failed"))))
                if locals().get("last_failed"): st("failed_call_state_checked")
                st("state_compared")
    r.aux["c03"] = (cov, stats)
    return viols[:5]

def cover(plan, r):
    cov, stats = r.aux.get("c03", (set(), {}))
    if plan.get("enumerated") is not None: stats = dict(stats); stats["enumerated_plans"] = 1
    return {"keys": sorted(cov), "nontrivial": stats.get("state_compared", 0) > 0, "stats": stats}

TECHNIQUE = "deterministic simulation: seeded call-sequence search against a sequential reference model of the session/login state machine, full session read-out after every call"
CLAIM = ("Seeded exploration: thousands of random session/login walks per run are executed by the real library inside the simulator; every call's "
         "accept/refuse outcome named in the statement is predicted by a reference model and, after every call (failed ones included), the state of "
         "every open session is read back and compared. Evidence, not proof; the bounded-exhaustive part of the quantifier is covered statistically (coverage keys report what was reached).")
NOTE = "Trusted: the reference model (tools/model.py), the simulator's stubbed kernel/RNG; one simulated process, one caller thread in this check (threads: C18, processes: C15)."
