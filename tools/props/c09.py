"""C09 - a call that fails has no effect on objects (DESIGN 4, C09)."""
import p11const as K
from p11const import A_bool, A_ulong, A_bytes
from store import StoreW, StoreOracle, decode_read, fmt, PIN_TYPES, same
from gen import RW, RO
from model import World, ref_of_label, tbool
import hist, objs, mechs, decoder

LEVEL = "exploration"
QUICK_RUNS = 1400
QUICK_BUDGET_S = 95
THOROUGH_RUNS = 10 ** 7
RULE = ("seeded object populations (token/session x private/public, 9 kinds) on which every object-management / generation / unwrap / derive call is issued with exactly ONE defect (unknown, read-only, "
        "inconsistent, wrongly sized or missing attribute at a random template position among valid ones; wrong session state; bad mechanism parameter; truncated, bit-flipped or wrong-key wrapped blob), "
        "and - in the fault share - without a defect but with one injected file-operation fault at a position of the call's own I/O sequence that is cycled through (open, lock, read, ftruncate, each write, "
        "unlock, remove, opendir, lstat x ordinal 0..11). Before and after each such call every open session's search result and every attribute of every object are read out and the simulated disk is dumped "
        "and decoded; when the call returned an error all three views must be identical (lock files and generation counters excepted), also after a restart. Distinct+non-trivial: (call, defect or fault "
        "kind+position, object token/private, outcome) with the call having failed.")
PROBES = ["db_backend_runs", "failed_call_compared", "failed_under_fault_compared", "disk_compared", "session_views_compared", "set_template_prefix_case", "create_defect", "generate_defect", "unwrap_bad_blob", "derive_defect", "copy_defect", "destroy_refused", "restart_compared", "fault_fired_and_failed"]
DEATH_IS_VIOLATION = ()

UNKNOWN_ATTR = 0x7FFFFF01

class GW(StoreW):
    def snap(self, tid=0, pid=1, tag=None):
        """read-out through every open session + disk dump"""
        for s in self.live_sessions(pid):
            self.emit({"act": "readout", "s": s.ref, "tmpl": [], "types": PIN_TYPES, "snap": tag}, tid)
        self.emit({"act": "disk", "data": True, "snap": tag}, tid)

    def defect_template(self, tmpl, klass_key=True):
        """returns (new template, defect name): exactly one defect at a random position"""
        r = self.r; t = [list(e) for e in tmpl]
        kind = r.choice(["unknown", "readonly", "wrongsize", "missing", "inconsistent", "nullptr", "toolong"])
        pos = r.randrange(len(t) + 1)
        if kind == "toolong":
            # more entries than the library's internal template buffers hold (32 minus what the call adds itself): every entry is valid - an already present
            # entry repeated with the same value - so the count alone is the defect (calls without such a limit simply succeed)
            lab = [e for e in t if e[0] == K.CKA_LABEL] or [t[0]]
            while len(t) < r.choice([29, 30, 33, 40]): t.insert(r.randrange(len(t) + 1), list(lab[0]))
        elif kind == "unknown":
            t.insert(pos, [UNKNOWN_ATTR, "x", "01"])
        elif kind == "readonly":
            t.insert(pos, A_bool(r.choice([K.CKA_LOCAL, K.CKA_ALWAYS_SENSITIVE, K.CKA_NEVER_EXTRACTABLE]), True) if r.random() < 0.7 else A_ulong(K.CKA_KEY_GEN_MECHANISM, K.CKM_AES_KEY_GEN))
        elif kind == "wrongsize":
            cands = [i for i, e in enumerate(t) if e[1] == "x" and len(e[2]) in (2, 16) and e[0] not in (K.CKA_LABEL, K.CKA_ID, K.CKA_VALUE, K.CKA_APPLICATION, K.CKA_START_DATE, K.CKA_END_DATE)]
            if not cands: return self.defect_template(tmpl)
            i = r.choice(cands); t[i][2] = t[i][2] + "00" if len(t[i][2]) == 2 else t[i][2][:8]
        elif kind == "missing":
            need = [i for i, e in enumerate(t) if e[0] in (K.CKA_VALUE, K.CKA_MODULUS, K.CKA_PRIVATE_EXPONENT, K.CKA_EC_PARAMS, K.CKA_CLASS, K.CKA_KEY_TYPE, K.CKA_CERTIFICATE_TYPE, K.CKA_SUBJECT)]
            if not need: return self.defect_template(tmpl)
            del t[r.choice(need)]
        elif kind == "inconsistent":
            cands = [i for i, e in enumerate(t) if e[0] in (K.CKA_CLASS, K.CKA_KEY_TYPE)]
            if not cands: return self.defect_template(tmpl)
            i = r.choice(cands); t[i] = A_ulong(t[i][0], r.choice([0x7FFFFFFF, 0x99]))
        else:
            t.insert(pos, [r.choice([K.CKA_ID, K.CKA_LABEL]), "n", 5])   # NULL pointer with a non-zero length
        return t, kind

    def c_create(self, tid, pid):
        r = self.r
        live = self.live_sessions(pid)
        if not live: return None
        s = r.choice(live); ref = self.new_obj()
        kind = r.choice(self.kinds); token = r.random() < 0.6; private = r.random() < 0.5
        tmpl, info = objs.make(kind, ref, r, token=token, private=private, extra=self.extras(kind))
        self.info[ref] = info
        x = r.random()
        if x < 0.75: tmpl, d = self.defect_template(tmpl)
        elif x < 0.9:
            # wrong session state
            d = "state"
            cands = [z for z in live if not self.can_create(pid, z, token, private)]
            if not cands: token = True; cands = [z for z in live if not z.rw]
            if not cands: return None
            s = r.choice(cands); tmpl, info = objs.make(kind, ref, r, token=token, private=private)
        else: d = "none"
        return {"f": "C_CreateObject", "s": s.ref, "tmpl": tmpl, "out": ref, "defect": d}

    def c_set(self, tid, pid):
        r = self.r
        lo = [o for o in self.live_objs(pid) if o.ref in self.P(pid).h2obj.values()]
        if not lo: return None
        o = r.choice(lo)
        ss = [s for s in self.live_sessions(pid) if s.tok == o.tok]
        if not ss: return None
        s = r.choice(ss)
        kind = self.info.get(o.ref, {}).get("kind", "data")
        good = [A_bytes(K.CKA_LABEL, objs.label(o.ref, ":" + "".join(r.choice("abcdefgh") for _ in range(r.randint(1, 12)))))]
        if kind != "data": good.append(A_bytes(K.CKA_ID, objs.rnd(r, r.choice([1, 8, 20]))))
        if kind == "data": good.append(A_bytes(K.CKA_APPLICATION, objs.rnd(r, 6)))
        if kind in ("aes", "generic", "des3", "rsa_priv", "ec_priv"): good.append(A_bool(K.CKA_DERIVE, r.random() < 0.5)); good.append(A_bytes(K.CKA_START_DATE, b"20300101"))
        r.shuffle(good)
        x = r.random()
        if x < 0.8:
            bad = r.choice([[UNKNOWN_ATTR, "x", "01"], A_ulong(K.CKA_CLASS, K.CKO_DATA), A_bool(K.CKA_LOCAL, True), A_bool(K.CKA_TOKEN, not o.token), [K.CKA_LABEL, "n", 4], A_bool(K.CKA_ALWAYS_SENSITIVE, False), [K.CKA_DERIVE if kind != "data" else K.CKA_PRIVATE, "x", "0100"]])
            pos = r.randint(0, len(good))     # position 0: nothing before it; >0: a valid prefix precedes the bad entry
            tm = good[:pos] + [bad] + good[pos:]
            d = "template@%d" % min(pos, 2)
        elif x < 0.92:
            d = "state"; tm = good[:2]
            cands = [z for z in self.live_sessions(pid) if (o.token and not z.rw) or (o.private and self.P(pid).login.get(z.tok) != "U")]
            if not cands: return None
            s = r.choice(cands)
        else:
            d = "none"; tm = good[:2]
        return {"f": "C_SetAttributeValue", "s": s.ref, "o": o.ref, "tmpl": tm, "defect": d}

    def c_copy(self, tid, pid):
        r = self.r
        lo = [o for o in self.live_objs(pid) if o.ref in self.P(pid).h2obj.values()]
        if not lo: return None
        o = r.choice(lo)
        ss = [s for s in self.live_sessions(pid) if s.tok == o.tok]
        if not ss: return None
        s = r.choice(ss); ref = self.new_obj()
        good = [A_bytes(K.CKA_LABEL, objs.label(ref)), A_bool(K.CKA_TOKEN, r.random() < 0.6)]
        if self.info.get(o.ref, {}).get("kind", "data") != "data": good.append(A_bytes(K.CKA_ID, objs.rnd(r, 5)))
        x = r.random()
        if x < 0.7:
            bad = r.choice([[UNKNOWN_ATTR, "x", "01"], A_ulong(K.CKA_CLASS, K.CKO_DATA), A_bool(K.CKA_LOCAL, True), [K.CKA_LABEL, "n", 4], [K.CKA_TOKEN, "x", "0101"]] + ([A_bool(K.CKA_PRIVATE, False)] if o.private else []))
            pos = r.randint(0, len(good)); tm = good[:pos] + [bad] + good[pos:]; d = "template@%d" % min(pos, 2)
        elif x < 0.9:
            d = "state"; tm = good
            tm = [e for e in tm if e[0] != K.CKA_TOKEN] + [A_bool(K.CKA_TOKEN, True)]
            cands = [z for z in self.live_sessions(pid) if not z.rw or (o.private and self.P(pid).login.get(z.tok) != "U")]
            if not cands: return None
            s = r.choice(cands)
        else: d = "none"; tm = good
        self.info[ref] = self.info.get(o.ref, {"kind": "data", "secret": {}})
        return {"f": "C_CopyObject", "s": s.ref, "o": o.ref, "tmpl": tm, "out": ref, "defect": d}

    def c_destroy(self, tid, pid):
        r = self.r
        lo = [o for o in self.live_objs(pid) if o.ref in self.P(pid).h2obj.values()]
        if not lo: return None
        o = r.choice(lo)
        cands = [z for z in self.live_sessions(pid) if (o.token and not z.rw) or (o.private and self.P(pid).login.get(z.tok) != "U")]
        if cands and r.random() < 0.8: return {"f": "C_DestroyObject", "s": r.choice(cands).ref, "o": o.ref, "defect": "state"}
        ss = [s for s in self.live_sessions(pid) if s.tok == o.tok]
        if not ss: return None
        return {"f": "C_DestroyObject", "s": r.choice(ss).ref, "o": o.ref, "defect": "none"}

    def c_generate(self, tid, pid):
        r = self.r
        live = self.live_sessions(pid)
        if not live: return None
        s = r.choice(live); ref = self.new_obj(); token = r.random() < 0.6; private = r.random() < 0.5
        which = r.choice(["aes", "generic", "des3", "ec"])
        if which == "ec":
            n2 = self.new_obj()
            pub = [A_bool(K.CKA_TOKEN, token), A_bool(K.CKA_PRIVATE, False), A_bytes(K.CKA_LABEL, objs.label(ref)), A_bytes(K.CKA_EC_PARAMS, bytes.fromhex(objs.POOL["ec"][0]["params"])), A_bool(K.CKA_VERIFY, True)]
            prv = [A_bool(K.CKA_TOKEN, token), A_bool(K.CKA_PRIVATE, private), A_bytes(K.CKA_LABEL, objs.label(n2)), A_bool(K.CKA_SIGN, True), A_bool(K.CKA_SENSITIVE, False), A_bool(K.CKA_EXTRACTABLE, True)]
            x = r.random(); d = "none"; m = mechs.simple(K.CKM_EC_KEY_PAIR_GEN)
            if x < 0.35: prv, d = self.defect_template(prv); d = "priv:" + d
            elif x < 0.6: pub, d = self.defect_template(pub); d = "pub:" + d
            elif x < 0.75: pub = [e for e in pub if e[0] != K.CKA_EC_PARAMS] + [A_bytes(K.CKA_EC_PARAMS, b"\x06\x03\x2a\x03\x04")]; d = "badcurve"
            elif x < 0.9:
                d = "state"; cands = [z for z in live if not self.can_create(pid, z, token, private)]
                if not cands: return None
                s = r.choice(cands)
            self.info[ref] = {"kind": "ec_pub", "secret": {}}; self.info[n2] = {"kind": "ec_priv", "secret": {}}
            return {"f": "C_GenerateKeyPair", "s": s.ref, "mech": m, "pub": pub, "priv": prv, "out": [ref, n2], "defect": d}
        if which == "aes": m = mechs.simple(K.CKM_AES_KEY_GEN); t = self.new_key_tmpl(ref, token, private, vlen=r.choice([16, 32]))
        elif which == "generic": m = mechs.simple(K.CKM_GENERIC_SECRET_KEY_GEN); t = self.new_key_tmpl(ref, token, private, vlen=32)
        else: m = mechs.simple(K.CKM_DES3_KEY_GEN); t = self.new_key_tmpl(ref, token, private)
        x = r.random(); d = "none"
        if x < 0.5: t, d = self.defect_template(t)
        elif x < 0.6 and which != "des3": t = [e for e in t if e[0] != K.CKA_VALUE_LEN] + [A_ulong(K.CKA_VALUE_LEN, r.choice([0, 7, 17, 1 << 20]))]; d = "badlen"
        elif x < 0.7: m = mechs.simple(m["m"], b"\x01\x02\x03") if r.random() < 0.5 else mechs.simple(0x7FFFFFF0); d = "badmech"
        elif x < 0.9:
            d = "state"; cands = [z for z in live if not self.can_create(pid, z, token, private)]
            if not cands: return None
            s = r.choice(cands)
        self.info[ref] = {"kind": which, "secret": {}}
        return {"f": "C_GenerateKey", "s": s.ref, "mech": m, "tmpl": t, "out": ref, "defect": d}

    def c_unwrap(self, tid, pid):
        r = self.r
        token = r.random() < 0.6; private = r.random() < 0.5
        s = self.pick_sess_for_new(pid, token, private)
        if not s: return None
        wks = self.usable(pid, ["aes"], same_tok=s.tok)
        keys = [o for o in self.usable(pid, ["aes", "generic"], same_tok=s.tok) if o.extractable is not False and not o.sensitive]
        if not wks or not keys: return None
        wk = r.choice(wks); k = r.choice(keys)
        name = "w%d" % len(self.ops[tid])
        m = r.choice([mechs.simple(K.CKM_AES_KEY_WRAP), mechs.simple(K.CKM_AES_KEY_WRAP_PAD), mechs.simple(K.CKM_AES_CBC_PAD, bytes(16))])
        self.emit({"f": "C_WrapKey", "s": s.ref, "mech": m, "wkey": wk.ref, "key": k.ref, "outcap": 256, "save": name}, tid)
        ref = self.new_obj()
        kt = K.CKK_AES if self.info[k.ref]["kind"] == "aes" else K.CKK_GENERIC_SECRET
        t = self.new_key_tmpl(ref, token, private, ktype=kt)
        x = r.random(); src = {"from": name}; uk = wk.ref; d = "none"
        if x < 0.25: src = {"from": name, "flip": r.randrange(4096)}; d = "blob:bitflip"
        elif x < 0.45: src = {"from": name, "trunc": r.choice([0, 1, 7, 8, 15, 16, 23])}; d = "blob:truncated"
        elif x < 0.6:
            others = [o for o in wks if o is not wk]
            if others: uk = r.choice(others).ref; d = "blob:wrongkey"
        elif x < 0.78: t, d = self.defect_template(t)
        elif x < 0.92:
            # a failure that is only detected AFTER the object was created: the blob decrypts fine but is not a PKCS#8 private key
            t = [e for e in t if e[0] not in (K.CKA_CLASS, K.CKA_KEY_TYPE, K.CKA_ENCRYPT, K.CKA_VERIFY, K.CKA_WRAP, K.CKA_DERIVE)] + [A_ulong(K.CKA_CLASS, K.CKO_PRIVATE_KEY), A_ulong(K.CKA_KEY_TYPE, r.choice([K.CKK_RSA, K.CKK_EC]))]
            d = "late:not_pkcs8"
        elif x < 0.96: m2 = dict(m); m2["p"] = "0102"; m = m2; d = "badmech"
        self.info[ref] = {"kind": self.info[k.ref]["kind"], "secret": {}}
        return {"f": "C_UnwrapKey", "s": s.ref, "mech": m, "ukey": uk, "in": src, "tmpl": t, "out": ref, "defect": d}

    def c_derive(self, tid, pid):
        r = self.r
        token = r.random() < 0.6; private = r.random() < 0.5
        s = self.pick_sess_for_new(pid, token, private)
        if not s: return None
        bases = self.usable(pid, ["aes", "generic", "ec_priv"], same_tok=s.tok)
        if not bases: return None
        b = r.choice(bases); kind = self.info[b.ref]["kind"]; ref = self.new_obj()
        if kind == "aes": m = r.choice([mechs.kdsd(K.CKM_AES_ECB_ENCRYPT_DATA, objs.rnd(r, 32)), mechs.kdsd(K.CKM_CONCATENATE_BASE_AND_DATA, objs.rnd(r, 8))])
        elif kind == "generic": m = mechs.kdsd(K.CKM_CONCATENATE_BASE_AND_DATA, objs.rnd(r, 8))
        else: m = mechs.ecdh1(bytes.fromhex(objs.POOL["ec"][r.randrange(3)]["q"]))
        t = self.new_key_tmpl(ref, token, private, ktype=K.CKK_GENERIC_SECRET)
        x = r.random(); d = "none"
        if x < 0.45: t, d = self.defect_template(t)
        elif x < 0.65:
            d = "badparam"
            if kind == "aes": m = mechs.kdsd(K.CKM_AES_ECB_ENCRYPT_DATA, objs.rnd(r, r.choice([0, 5, 17])))
            elif kind == "generic": m = mechs.simple(K.CKM_CONCATENATE_BASE_AND_DATA, b"")
            else: m = mechs.ecdh1(objs.rnd(r, r.choice([3, 65])))
        elif x < 0.72: t = [e for e in t if e[0] != K.CKA_KEY_TYPE] + [A_ulong(K.CKA_KEY_TYPE, K.CKK_AES), A_ulong(K.CKA_VALUE_LEN, 4096)]; d = "toolong"
        elif x < 0.9:
            # a failure that is only detected AFTER the object was created: the derived secret is shorter than the requested CKA_VALUE_LEN
            if kind == "aes": m = mechs.kdsd(K.CKM_AES_ECB_ENCRYPT_DATA, objs.rnd(r, 16)); want = 32
            elif kind == "generic": m = mechs.kdsd(K.CKM_CONCATENATE_BASE_AND_DATA, objs.rnd(r, 8)); want = 200
            else: want = 200
            t = [e for e in t if e[0] != K.CKA_VALUE_LEN] + [A_ulong(K.CKA_VALUE_LEN, want)]; d = "late:short_secret"
        self.info[ref] = {"kind": "generic", "secret": {}}
        return {"f": "C_DeriveKey", "s": s.ref, "mech": m, "base": b.ref, "tmpl": t, "out": ref, "defect": d}

CALLS = ["create", "create", "set", "set", "set", "copy", "destroy", "generate", "generate", "unwrap", "derive"]
FS_KINDS = ["open", "lock", "read", "ftruncate", "write", "unlock", "remove", "opendir", "lstat", "fstat", "readdir", "mkdir"]
FS_ERR = {"write": ["ENOSPC", "EIO"], "ftruncate": ["EIO"], "open": ["EACCES", "EMFILE", "ENOSPC"], "lock": ["ENOLCK", "EINTR"], "unlock": ["ENOLCK"], "read": ["EIO"],
          "remove": ["EACCES", "EIO"], "fstat": ["EIO"], "opendir": ["EMFILE"], "lstat": ["EIO"], "readdir": ["EIO"], "mkdir": ["ENOSPC"]}

def gen(seed, tier, index):
    faulty = (index % 3 == 2)
    g = GW(seed, "C09", profile="fault" if faulty else "seq")
    r = g.r
    g.max_objs = 9
    if index % 6 in (4, 5):
        # configuration stratum ("for both storage backends"): the SQLite object store on the simulated disk (SQLite VFS seam), defects and faults alike
        g.knobs["conf"]["objectstore.backend"] = "db"
    g.begin()
    for t in g.toks():
        g.s_open(tok=t, rw=True); g.s_login(user=K.CKU_USER, tok=t)
        if r.random() < 0.6: g.s_open(tok=t, rw=False)
    for _ in range(r.choice([2, 3, 5])):
        g.s_create(token=r.random() < 0.65)
    if r.random() < 0.5: g.s_gen()
    ncalls = r.choice([2, 3, 4, 6]) if tier == "quick" else r.choice([4, 8, 12])
    g.snap(tag="pre")
    for i in range(ncalls):
        which = r.choice(CALLS)
        if faulty and r.random() < 0.8:
            # a call WITHOUT defect, with one injected fault at a cycled position of its own I/O sequence
            which = r.choice(["create", "set", "copy", "destroy", "generate", "unwrap", "derive"])
            n0 = len(g.ops[0])
            ok = getattr(g, "s_" + {"create": "create", "set": "setattr", "copy": "copy", "destroy": "destroy", "generate": "gen", "unwrap": "unwrap", "derive": "derive"}[which])()
            if not ok: continue
            # the mutating op is the first of the ops just emitted that is a mutating call (s_unwrap emits C_WrapKey first; learn-then-pin read follows)
            idx = None
            for j in range(n0, len(g.ops[0])):
                if g.ops[0][j].get("f") in ("C_CreateObject", "C_SetAttributeValue", "C_CopyObject", "C_DestroyObject", "C_GenerateKey", "C_UnwrapKey", "C_DeriveKey"): idx = j
            if idx is None: continue
            g.ops[0][idx]["checked"] = True; g.ops[0][idx]["defect"] = "fault"
            # drop the pin read that follows (the post snapshot reads everything anyway)
            g.ops[0][idx + 1:] = [op for op in g.ops[0][idx + 1:] if not op.get("pin")]
            g.extra.setdefault("fault_candidates", []).append(idx)     # position inside the call's I/O sequence: chosen by prepare() after a counting pass
        else:
            op = getattr(g, "c_" + which)(0, 1)
            if op is None: continue
            op["checked"] = True
            d = op.get("defect", "none")
            if op.get("f") in ("C_CreateObject", "C_GenerateKey", "C_GenerateKeyPair", "C_UnwrapKey", "C_DeriveKey", "C_CopyObject") and r.random() < 0.3:
                # the object the failing call would have made is marked non-destroyable (or non-modifiable / non-copyable): the call's own clean-up has to
                # remove it all the same
                gate = A_bool(r.choice([K.CKA_DESTROYABLE, K.CKA_DESTROYABLE, K.CKA_MODIFIABLE, K.CKA_COPYABLE]), False)
                for key_ in ("tmpl", "pub", "priv"):
                    if isinstance(op.get(key_), list) and not any(e[0] == gate[0] for e in op[key_]) and (key_ != "priv" or r.random() < 0.5):
                        op[key_].insert(r.randint(0, len(op[key_])), gate)
                op["gate_false"] = K.name("CKA", gate[0])
            g.emit(op, ok=(d == "none"))
        g.snap(tag="post")
    g.emit({"act": "restart"}); g.relogin_all()
    g.emit({"act": "disk", "data": True, "snap": "restart"})
    return g.plan()

def prepare(plan, z):
    from gen import place_faults
    return place_faults(plan, z, plan["seed"])

def _v(cls, msg, **kw):
    d = {"class": cls, "msg": msg}; d.update(kw); return d

class Snap:
    def __init__(self): self.views = {}; self.disk = None; self.unid = {}
    # views: session ref -> {obj ref: attrs}; unid: session ref -> count of unidentified objects

def disk_view(tree, w):
    """{token ref: {file name: decoded+decrypted attribute view | 'UNPARSEABLE'}} without lock files, generation numbers ignored"""
    out = {}
    for dname, td in decoder.decode_tree(tree).items():
        tref = ref_of_label(td.label) if td.label else dname
        tk = w.toks.get(tref)
        mk = decoder.unwrap_master_key(td.so_blob, tk.so_pin) if tk else None
        files = {}
        for fname, parsed in td.objects.items():
            if isinstance(parsed, Exception): files[fname] = "UNPARSEABLE:%s" % parsed
            else:
                gen_, attrs = parsed
                files[fname] = decoder.object_view(attrs, mk) if attrs else "EMPTY"
        ta = getattr(td, "token_attrs", None)
        tokview = {t: v for t, v in ta.items()} if ta else getattr(td, "token_error", "MISSING")
        others = sorted(n for n in td.files if not n.endswith(".lock") and not n.endswith(".object") and n != "generation" and not n.endswith("-journal"))
        out[tref] = {"objects": files, "token": tokview, "other_files": others}
    return out

def diff_disk(a, b):
    """list of human-readable differences"""
    out = []
    for t in sorted(set(a) | set(b)):
        if t not in a: out.append(("token_dir_added", t, None)); continue
        if t not in b: out.append(("token_dir_removed", t, None)); continue
        fa, fb = a[t]["objects"], b[t]["objects"]
        for f in sorted(set(fa) | set(fb)):
            if f not in fa:
                v = fb[f]
                lab = v.get(K.CKA_LABEL) if isinstance(v, dict) else None
                out.append(("left_over_file", "%s/%s" % (t, f[:13]), "new file (%s)" % ("empty" if v == "EMPTY" else "no label, %d attributes" % len(v) if isinstance(v, dict) and not lab else "object %s" % lab if isinstance(v, dict) else v)))
            elif f not in fb: out.append(("file_removed", "%s/%s" % (t, f[:13]), "object file disappeared"))
            elif fa[f] != fb[f]:
                if not isinstance(fa[f], dict) or not isinstance(fb[f], dict): out.append(("file_damaged", "%s/%s" % (t, f[:13]), "%s -> %s" % (fa[f] if not isinstance(fa[f], dict) else "valid", fb[f] if not isinstance(fb[f], dict) else "valid")))
                else:
                    ch = [K.name("CKA", x) for x in sorted(set(fa[f]) | set(fb[f])) if fa[f].get(x) != fb[f].get(x)]
                    out.append(("attributes_changed_on_disk", "%s/%s" % (t, f[:13]), ",".join(ch[:5])))
        if a[t]["token"] != b[t]["token"]:
            ta, tb = a[t]["token"], b[t]["token"]
            if isinstance(ta, dict) and isinstance(tb, dict):
                ch = [x for x in sorted(set(ta) | set(tb)) if ta.get(x) != tb.get(x)]
                out.append(("token_object_changed", t, ",".join("0x%x" % x for x in ch)))
            else: out.append(("token_object_damaged", t, "%s -> %s" % ("valid" if isinstance(ta, dict) else ta, "valid" if isinstance(tb, dict) else tb)))
        if a[t]["other_files"] != b[t]["other_files"]: out.append(("other_files", t, "%s -> %s" % (a[t]["other_files"], b[t]["other_files"])))
    return out

def check(plan, r):
    viols = []; cov = set(); stats = {}
    def st(k, n=1): stats[k] = stats.get(k, 0) + n
    w = World(); pids = hist.pid_track(plan)
    fault_ops = {}
    for e in r.hist:
        if e.get("e") == "fs" and e.get("fault"): fault_ops.setdefault(e.get("op"), []).append(e)
    cur = Snap(); prev = None
    pending = None   # (k, op, ret, pre snapshot) of a checked call that FAILED, waiting for its post snapshot
    post_restart_views = {}
    fault_failed = []    # calls that failed with an injected fault (their left-overs may only show after the restart)
    restarted = False
    last_snap_before_restart = None
    def finish_snapshot(k):
        nonlocal cur, prev, pending, last_snap_before_restart
        if pending is not None:
            pk, pop, pret, pre = pending
            compare(pk, pop, pret, pre, cur)
            pending = None
        prev = cur; last_snap_before_restart = cur; cur = Snap()
    def compare(k, op, ret, pre, post):
        f = hist.opname(op); d = op.get("defect", "?"); fired = fault_ops.get(k)
        fdesc = ""
        if fired: fdesc = " [injected: %s #%s -> %s on %s]" % (fired[0]["k"], fault_nth(plan, k), fired[0].get("errno"), c_role(fired[0]["path"]))
        st("failed_call_compared")
        if fired: st("failed_under_fault_compared")
        tgt = w.objs.get(op.get("o")) if isinstance(op.get("o"), str) else None
        okey = "tok%d|priv%d" % (tgt.token, tgt.private) if tgt else "new|tok%s|priv%s" % (tbool(op.get("tmpl") or op.get("priv"), K.CKA_TOKEN), tbool(op.get("tmpl") or op.get("priv"), K.CKA_PRIVATE))
        cov.add("%s|%s|%s|%s" % (f, d if not fired else "fault:%s#%s" % (fired[0]["k"], min(fault_nth(plan, k), 12)), okey, K.rvname(ret.get("rv"))))
        if f == "C_SetAttributeValue" and d.startswith("template@") and d != "template@0": st("set_template_prefix_case")
        st({"C_CreateObject": "create_defect", "C_GenerateKey": "generate_defect", "C_GenerateKeyPair": "generate_defect", "C_UnwrapKey": "unwrap_bad_blob", "C_DeriveKey": "derive_defect", "C_CopyObject": "copy_defect", "C_DestroyObject": "destroy_refused", "C_SetAttributeValue": "set_defect"}.get(f, "other"))
        common = dict(call=f, op=k, defect=d if not fired else "fault", rv=K.rvname(ret.get("rv")), fault_fs=(fired[0]["k"] if fired else None), fault_role=(c_role(fired[0]["path"]) if fired else None),
                      session_object=(tgt is not None and not tgt.token) or (tgt is None and tbool(op.get("tmpl") or op.get("priv"), K.CKA_TOKEN) is False))
        # (i)+(ii) every open session's view
        for sref, before in pre.views.items():
            after = post.views.get(sref)
            if after is None: continue
            st("session_views_compared")
            if pre.unid.get(sref, 0) != post.unid.get(sref, 0):
                viols.append(_v("C09.partial_object_visible", "after %s failed with %s%s, session %s finds %d object(s) without a readable label (before: %d): a partially built object became visible" % (f, K.rvname(ret.get("rv")), fdesc, sref, post.unid.get(sref, 0), pre.unid.get(sref, 0)), manifestation="partial_object_visible", **common))
            for ref in sorted(set(before) | set(after)):
                if ref not in after:
                    viols.append(_v("C09.object_lost", "after %s failed with %s%s, object %s is no longer found by session %s" % (f, K.rvname(ret.get("rv")), fdesc, ref, sref), manifestation="object_lost", target=("written_object" if ref == op.get("o") else "other_object"), **common))
                elif ref not in before and getattr(w.objs.get(ref), "alive", False) and ref != op.get("out"):
                    # the model says this object exists and is visible: an EARLIER failed call hid it (reported there); this call's re-index brought it back
                    viols.append(_v("C09.object_reappeared", "after %s failed with %s%s, session %s finds object %s again, which an earlier failed call had wrongly hidden" % (f, K.rvname(ret.get("rv")), fdesc, sref, ref), manifestation="reappeared_after_earlier_loss", **common))
                elif ref not in before:
                    viols.append(_v("C09.object_appeared", "after %s failed with %s%s, session %s finds a new object %s" % (f, K.rvname(ret.get("rv")), fdesc, sref, ref), manifestation="object_appeared", **common))
                else:
                    ch = [int(t) for t in sorted(set(before[ref]) | set(after[ref]), key=int) if decode_read(int(t), before[ref].get(t)) != decode_read(int(t), after[ref].get(t))]
                    if ch:
                        t0 = ch[0]
                        viols.append(_v("C09.attribute_changed", "after %s failed with %s%s, %s of object %s reads %s (before: %s)%s" % (f, K.rvname(ret.get("rv")), fdesc, K.name("CKA", t0), ref, fmt(decode_read(t0, after[ref].get(str(t0)))), fmt(decode_read(t0, before[ref].get(str(t0)))),
                                        " - a prefix of the rejected template was applied" if f == "C_SetAttributeValue" and any(e[0] == t0 for e in op.get("tmpl", [])) else ""),
                                        manifestation="prefix_applied" if f == "C_SetAttributeValue" and any(e[0] == t0 for e in op.get("tmpl", [])) else "attribute_changed", target=("written_object" if ref == op.get("o") else "other_object"), attr=K.name("CKA", t0), **common))
        # (iii) the token directory
        if pre.disk is not None and post.disk is not None:
            st("disk_compared")
            for kind, where, what in diff_disk(pre.disk, post.disk)[:3]:
                viols.append(_v("C09.disk_changed", "after %s failed with %s%s, the token directory differs: %s %s: %s" % (f, K.rvname(ret.get("rv")), fdesc, kind, where, what), manifestation=kind, **common))
    for tid, k, op, ret in hist.walk(plan, r):
        pid = pids[tid][k]; P = w.proc(pid)
        f = hist.opname(op); rv = ret.get("rv"); ok = rv == 0
        s = w.sess(pid, op.get("s")) if "s" in op else None
        if f == "@restart": restarted = True
        if op.get("checked"):
            if k in fault_ops and not ok:
                st("fault_fired_and_failed"); fault_failed.append((f, fault_ops[k][0]["k"], c_role(fault_ops[k][0]["path"]), op))
                # restart-time manifestations cannot be tied to one of several faulted calls by observation; they are attributed to the one that
                # physically changes file contents (a failed write/ftruncate) if there is one, else to the earliest (documented in DESIGN 10)
                fault_failed.sort(key=lambda x: -1 if (x[1] == "unlock" and x[2] in ("database", "journal")) else 0 if x[1] in ("write", "ftruncate") else 1)      # below SQLite a failed unlock is the one fault after which the commit has nevertheless happened
            if not ok and prev is not None and not restarted:
                pending = (k, op, ret, prev)
        w.apply(pid, op, ret)
        if f == "@readout" and ok and s is not None:
            view = {}; unid = 0
            for e, oj in zip(ret.get("ids", []), ret.get("objs", [])):
                ref = e.get("ref")
                if ref: view[ref] = oj["attrs"]
                else: unid += 1
            if op.get("snap"):
                cur.views[s.ref] = view; cur.unid[s.ref] = unid
            elif op.get("after_restart"):
                post_restart_views[s.tok] = (view, unid, k)
        elif f == "@disk" and op.get("snap"):
            dv = disk_view(ret.get("tree", {}), w)
            if op["snap"] == "restart":
                # what was visible before the restart (token objects) must be exactly what is visible after it
                if last_snap_before_restart is not None and last_snap_before_restart.disk is not None:
                    st("restart_compared")
                    for kind, where, what in diff_disk(last_snap_before_restart.disk, dv)[:2]:
                        viols.append(_v("C09.disk_changed_by_restart", "the token directory changed across C_Finalize/C_Initialize: %s %s: %s" % (kind, where, what), call="restart", op=k, manifestation=kind, after_faulted_failure=bool(fault_failed), defect="fault" if fault_failed else "none", fault_fs=(fault_failed[0][1] if fault_failed else None), fault_role=(fault_failed[0][2] if fault_failed else None)))
                    before_tok = {}
                    for sref, view in last_snap_before_restart.views.items():
                        for ref, at in view.items():
                            o = w.objs.get(ref)
                            if o is not None and o.token: before_tok.setdefault(o.tok, {})[ref] = at
                    for tok, (view, unid, kk) in post_restart_views.items():
                        if unid:
                            viols.append(_v("C09.partial_object_visible", "after the restart token %s returns %d object(s) without a readable label (left-overs of failed calls)" % (tok, unid), call="restart", op=kk, manifestation="partial_object_visible_after_restart", after_faulted_failure=bool(fault_failed), defect="fault" if fault_failed else "none", fault_fs=(fault_failed[0][1] if fault_failed else None), fault_role=(fault_failed[0][2] if fault_failed else None)))
                        for ref in view:
                            o = w.objs.get(ref)
                            if o is not None and not o.alive:
                                ff_ = [x for x in fault_failed if ref in (x[3].get("out"), x[3].get("o"))] or fault_failed      # a half-made copy still carries its source's label
                                viols.append(_v("C09.object_appeared", "after the restart object %s exists although the call that would have created it failed (or it was destroyed)" % ref, call="restart", op=kk, manifestation="object_appeared_after_restart", after_faulted_failure=bool(fault_failed), defect="fault" if fault_failed else "none", fault_fs=(ff_[0][1] if ff_ else None), fault_role=(ff_[0][2] if ff_ else None)))
            else:
                cur.disk = dv
                finish_snapshot(k)
    r.aux["c09"] = (cov, stats)
    backend = plan["knobs"].get("conf", {}).get("objectstore.backend", "file")
    if backend == "db": st("db_backend_runs")
    rf = [k_ for k_, evs in fault_ops.items() if k_ is not None and any(e.get("k") in ("read", "access", "fstat", "lock") for e in evs)]
    first_rf = min(rf) if rf else None
    for v in viols:
        v["backend"] = backend
        v["read_fault_before"] = bool(first_rf is not None and isinstance(v.get("op"), int) and v["op"] >= first_rf)
    # one violation per (class, manifestation)
    seen = set(); out = []
    for v in viols:
        key = (v["class"], v.get("manifestation"), v.get("call"))
        if key in seen: continue
        seen.add(key); out.append(v)
    return out[:6]

def fault_nth(plan, k):
    for f in plan.get("faults", []):
        if f["op"] == k: return f["nth"]
    return -1

def c_role(path):
    n = path.split("/")[-1]
    if n == "sqlite3.db": return "database"
    if n.endswith("-journal"): return "journal"
    return "token.object" if n == "token.object" else "token.lock" if n == "token.lock" else "lock file" if n.endswith(".lock") else "object file" if n.endswith(".object") else "token dir"

def cover(plan, r):
    cov, stats = r.aux.get("c09", (set(), {}))
    return {"keys": sorted(cov), "nontrivial": stats.get("failed_call_compared", 0) > 0, "stats": stats}

TECHNIQUE = "deterministic simulation with fault injection: single-defect calls and single-fault calls, before/after comparison of every session view and of the independently decoded simulated disk"
CLAIM = ("Seeded exploration: every object-management, generation, unwrap and derive call is issued with exactly one defect, or without defect but with one injected file-operation error at a cycled position of its "
         "I/O sequence; whenever it returns an error, the search result and every attribute seen by every open session, and the decoded token directory, must equal the snapshot taken before the call, and a restart "
         "must not bring anything new to light. Evidence, not proof.")
NOTE = "Trusted: the decoder's format specification; snapshots are taken through the API and from the simulator-owned disk. Lock files and generation counters are ignored as the design says. Both object stores: every third plan runs on the SQLite store over the simulated disk (SQLite VFS seam), with defects and with faults placed on SQLite's own file operations."
