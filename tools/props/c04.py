"""C04 - only the current PIN authenticates; PIN changes are exact and lossless (DESIGN 4, C04)."""
import p11const as K
from p11const import A_bool, A_ulong, A_bytes
from gen import G, RW, RO
from model import World
import hist, objs

LEVEL = "exploration"
QUICK_RUNS = 1500
QUICK_BUDGET_S = 85
THOROUGH_RUNS = 10 ** 7
RULE = ("seeded histories of C_InitToken, C_InitPIN, C_SetPIN (from RW public, RW user, RO and SO sessions; correct / near-miss old PIN; new PIN lengths "
        "0,1,3,4,5..16,255,256) on 1-2 tokens, each followed by a verification round of C_Login attempts with the current PIN, every previous PIN of that user, "
        "the other user's PIN and neighbours (prefix, extension, one-bit flips, embedded NUL, non-ASCII, lengths 0..256), repeated after C_Finalize/C_Initialize and in a "
        "second library copy started cold on the same disk; private token objects written before a change are read back after it. Distinct+non-trivial: (operation, "
        "session state, old-PIN class, new-PIN length class, outcome) and (login user, PIN class, where, outcome).")
PROBES = ["login_current_ok", "login_previous_refused", "login_other_users_pin_refused", "login_neighbour_refused", "setpin_ok", "setpin_wrong_old", "setpin_len_range", "initpin_not_so", "initpin_ok",
          "after_restart", "in_cold_copy", "private_object_survived", "flags_checked", "rejected_then_verified"]
DEATH_IS_VIOLATION = ()

def pin_class(pin, cur, prevs, other):
    if cur is not None and pin == cur: return "current"
    if pin in prevs: return "previous"
    if other is not None and pin == other: return "other_user"
    return "neighbour"

def gen(seed, tier, index):
    g = G(seed, "C04"); r = g.r
    g.emit({"act": "start"})
    ntok = 1 if r.random() < 0.7 else 2
    toks = []
    hist_pins = {}
    for _ in range(ntok):
        so = g.pin(4, 16); t = g.setup_token(user_pin=False, so_pin=so)
        toks.append(t); hist_pins[t] = {"S": [so], "U": []}
    sess = {}
    def ensure_session(t, rw=True):
        key = (t, rw)
        if key in sess and sess[key] in g.w.proc(g.pid_of[0]).sessions: return sess[key]
        s = g.new_sess(); g.emit({"f": "C_OpenSession", "slot": t, "flags": RW if rw else RO, "out": s}); sess[key] = s; return s
    def state(t): return g.w.proc(g.pid_of[0]).login.get(t)
    def logout(t):
        if state(t):
            g.emit({"f": "C_Logout", "s": ensure_session(t)})
    def login(t, user, pin, expect):
        s = ensure_session(t)
        g.emit({"f": "C_Login", "s": s, "user": user, "pin": pin.hex(), "verify": True}, ok=expect)
        if expect: g.emit({"f": "C_Logout", "s": s})
    def verify_round(t, full=False):
        # close RO sessions first so that SO logins are not refused for another reason
        P = g.w.proc(g.pid_of[0])
        for sref, sx in list(P.sessions.items()):
            if sx.tok == t and not sx.rw: g.emit({"f": "C_CloseSession", "s": sref})
        logout(t)
        tk = g.w.toks[t]
        for user, cur, other, prevs in ((K.CKU_USER, tk.user_pin, tk.so_pin, hist_pins[t]["U"]), (K.CKU_SO, tk.so_pin, tk.user_pin, hist_pins[t]["S"])):
            cands = []
            if cur is not None: cands.append(cur)
            cands += [p for p in prevs if p != cur][-2:]
            if other is not None and other != cur: cands.append(other)
            base = cur or (prevs[-1] if prevs else b"abcd")
            for _ in range(3 if full else 1): cands.append(g.near_pin(base))
            if r.random() < 0.3: cands.append(r.choice([b"", b"a", b"abc", bytes(255), bytes(256), base + b"\x00", b"\xff\xfe" + base]))
            r.shuffle(cands)
            for p in cands:
                login(t, user, p, expect=(cur is not None and p == cur))
        g.emit({"f": "C_GetTokenInfo", "slot": t})
    objrefs = {}
    n = r.choice([3, 5, 8, 12]) if tier == "quick" else r.choice([6, 12, 20])
    for t in toks: verify_round(t)
    if index % 4 == 2:
        # directed prefix: the chain in which BOTH blobs of the master key are re-wrapped while private objects exist - user PIN set, private object created,
        # the SO changes its own PIN, (restart), the SO sets a new user PIN, the user reads the old private object
        t = toks[0]; tk = g.w.toks[t]
        def readback():
            logout(t)
            g.emit({"f": "C_Login", "s": ensure_session(t), "user": K.CKU_USER, "pin": g.w.toks[t].user_pin.hex()})
            g.emit({"act": "readout", "s": ensure_session(t), "tmpl": [A_ulong(K.CKA_CLASS, K.CKO_DATA)], "types": [K.CKA_LABEL, K.CKA_VALUE]})
            g.emit({"f": "C_Logout", "s": ensure_session(t)})
        logout(t); g.emit({"f": "C_Login", "s": ensure_session(t), "user": K.CKU_SO, "pin": tk.so_pin.hex()})
        up0 = g.pin(4, 16); g.emit({"f": "C_InitPIN", "s": ensure_session(t), "pin": up0.hex()}); hist_pins[t]["U"].append(up0)
        logout(t); g.emit({"f": "C_Login", "s": ensure_session(t), "user": K.CKU_USER, "pin": up0.hex()})
        ref = g.new_obj(); val = bytes(r.randrange(256) for _ in range(r.choice([16, 40, 200])))
        g.emit({"f": "C_CreateObject", "s": ensure_session(t), "out": ref, "tmpl": [A_ulong(K.CKA_CLASS, K.CKO_DATA), A_bool(K.CKA_TOKEN, True), A_bool(K.CKA_PRIVATE, True), A_bytes(K.CKA_LABEL, objs.label(ref)), A_bytes(K.CKA_VALUE, val)]})
        objrefs[ref] = val
        steps = r.choice([["so_set", "so_init"], ["so_set", "restart", "so_init"], ["user_set", "so_set", "so_init"], ["so_set", "so_set", "so_init", "user_set"], ["so_init", "so_set", "restart", "so_init"]])
        for stp in steps:
            tk = g.w.toks[t]
            if stp == "restart":
                g.emit({"act": "restart"}); sess.clear(); continue
            logout(t)
            if stp == "user_set":
                g.emit({"f": "C_Login", "s": ensure_session(t), "user": K.CKU_USER, "pin": tk.user_pin.hex()})
                np_ = g.pin(4, 16); g.emit({"f": "C_SetPIN", "s": ensure_session(t), "old": tk.user_pin.hex(), "new": np_.hex()}); hist_pins[t]["U"].append(np_)
            else:
                g.emit({"f": "C_Login", "s": ensure_session(t), "user": K.CKU_SO, "pin": tk.so_pin.hex()})
                np_ = g.pin(4, 16)
                if stp == "so_set": g.emit({"f": "C_SetPIN", "s": ensure_session(t), "old": tk.so_pin.hex(), "new": np_.hex()}); hist_pins[t]["S"].append(np_)
                else: g.emit({"f": "C_InitPIN", "s": ensure_session(t), "pin": np_.hex()}); hist_pins[t]["U"].append(np_)
            readback()
        verify_round(t)
    for _ in range(n):
        t = r.choice(toks); tk = g.w.toks[t]
        x = r.random()
        P = g.w.proc(g.pid_of[0])
        if x < 0.25:
            # InitPIN from a random state
            st = r.choice(["S", "S", "S", None, "U"])
            logout(t)
            if st == "S": g.emit({"f": "C_Login", "s": ensure_session(t), "user": K.CKU_SO, "pin": tk.so_pin.hex()})
            elif st == "U" and tk.user_pin is not None: g.emit({"f": "C_Login", "s": ensure_session(t), "user": K.CKU_USER, "pin": tk.user_pin.hex()})
            np_ = r.choice([g.pin(4, 16), g.pin(4, 16), g.pin(4, 16), b"", b"a", b"abc", b"abcd", bytes(r.randrange(1, 256) for _ in range(255)), bytes(256), b"p\x00in\x00", "pÿn€".encode()])
            ok = state(t) == "S" and 4 <= len(np_) <= 255
            g.emit({"f": "C_InitPIN", "s": ensure_session(t), "pin": np_.hex()}, ok=ok)
            if ok: hist_pins[t]["U"].append(np_)
            g.emit({"f": "C_GetTokenInfo", "slot": t})
            verify_round(t)
        elif x < 0.7:
            st = r.choice(["S", "U", "U", None, None, "RO"])
            logout(t)
            rw = True
            if st == "S": g.emit({"f": "C_Login", "s": ensure_session(t), "user": K.CKU_SO, "pin": tk.so_pin.hex()})
            elif st == "U" and tk.user_pin is not None: g.emit({"f": "C_Login", "s": ensure_session(t), "user": K.CKU_USER, "pin": tk.user_pin.hex()})
            elif st == "RO": rw = False
            s = ensure_session(t, rw)
            which = "S" if state(t) == "S" else "U"
            cur = tk.so_pin if which == "S" else tk.user_pin
            y = r.random()
            if y < 0.6 and cur is not None: old = cur
            elif y < 0.75: old = (tk.user_pin if which == "S" else tk.so_pin) or b"nonesuch"
            elif y < 0.85 and hist_pins[t][which]: old = r.choice(hist_pins[t][which])
            else: old = g.near_pin(cur or b"abcd")
            np_ = r.choice([g.pin(4, 16), g.pin(4, 16), g.pin(4, 16), g.pin(4, 16), b"", b"abc", b"abcd", bytes(r.randrange(1, 256) for _ in range(255)), bytes(256), old])
            ok = rw and cur is not None and old == cur and 4 <= len(np_) <= 255
            g.emit({"f": "C_SetPIN", "s": s, "old": old.hex(), "new": np_.hex()}, ok=ok)
            if ok: hist_pins[t][which].append(np_)
            g.emit({"f": "C_GetTokenInfo", "slot": t})
            verify_round(t)
        elif x < 0.82 and tk.user_pin is not None:
            # a private token object with a known value, read back later
            logout(t)
            g.emit({"f": "C_Login", "s": ensure_session(t), "user": K.CKU_USER, "pin": tk.user_pin.hex()})
            ref = g.new_obj(); val = bytes(r.randrange(256) for _ in range(r.choice([16, 40, 200])))
            g.emit({"f": "C_CreateObject", "s": ensure_session(t), "out": ref, "tmpl": [A_ulong(K.CKA_CLASS, K.CKO_DATA), A_bool(K.CKA_TOKEN, True), A_bool(K.CKA_PRIVATE, True), A_bytes(K.CKA_LABEL, objs.label(ref)), A_bytes(K.CKA_VALUE, val)]})
            objrefs[ref] = val
            g.emit({"f": "C_Logout", "s": ensure_session(t)})
        elif x < 0.92:
            if r.random() < 0.5 or g.pid_of[0] != 1:
                g.emit({"act": "restart"}); sess.clear()
            else:
                # a second library copy, started cold on the same disk (new process)
                g.emit({"act": "stop"}); g.emit({"act": "start", "pid": 2}); sess.clear()
            for t2 in toks: verify_round(t2, full=True)
        else:
            so = tk.so_pin if r.random() < 0.7 else g.near_pin(tk.so_pin)
            P = g.w.proc(g.pid_of[0])
            for sref, sx in list(P.sessions.items()):
                if sx.tok == t: g.emit({"f": "C_CloseSession", "s": sref})
            ok = so == tk.so_pin
            g.emit({"f": "C_InitToken", "slot": t, "pin": so.hex(), "label": t, "out": t}, ok=ok)
            if ok:
                hist_pins[t]["U"].append(b"\x00never\x00")  # previous user PINs must not come back
                for ref in list(objrefs):
                    if g.w.objs.get(ref) and g.w.objs[ref].tok == t: objrefs.pop(ref)
            verify_round(t)
        # read back the private objects of this token
        if objrefs and tk.user_pin is not None and r.random() < 0.6:
            logout(t)
            g.emit({"f": "C_Login", "s": ensure_session(t), "user": K.CKU_USER, "pin": g.w.toks[t].user_pin.hex()})
            g.emit({"act": "readout", "s": ensure_session(t), "tmpl": [A_ulong(K.CKA_CLASS, K.CKO_DATA)], "types": [K.CKA_LABEL, K.CKA_VALUE]})
            g.emit({"f": "C_Logout", "s": ensure_session(t)})
    return g.plan()

def _v(cls, msg, **kw):
    d = {"class": cls, "msg": msg}; d.update(kw); return d

def check(plan, r):
    viols = []; cov = set(); stats = {}
    def st(k, n=1): stats[k] = stats.get(k, 0) + n
    w = World(); pids = hist.pid_track(plan)
    prev = {}     # tok -> {"U": [pins], "S": [pins]}
    objvals = {}  # ref -> value
    where = "same"
    last_rejected = None
    for tid, k, op, ret in hist.walk(plan, r):
        pid = pids[tid][k]; P = w.proc(pid)
        f = hist.opname(op); rv = ret.get("rv"); ok = rv == 0
        s = w.sess(pid, op.get("s")) if "s" in op else None
        if f == "@restart": where = "restart"
        if f == "@start" and pid != 1: where = "coldcopy"
        if f == "C_InitToken" and ok:
            t = op.get("out"); prev.setdefault(t, {"U": [], "S": []})
            if t in w.toks and w.toks[t].user_pin is not None: prev[t]["U"].append(w.toks[t].user_pin)
        if f == "C_CreateObject" and ok:
            from model import tget
            objvals[op["out"]] = tget(op["tmpl"], K.CKA_VALUE)
        if f == "C_Login" and s is not None and op.get("user") in (K.CKU_USER, K.CKU_SO) and s.tok in w.toks:
            tk = w.toks[s.tok]; user = op["user"]; pin = bytes.fromhex(op["pin"])
            cur = tk.so_pin if user == K.CKU_SO else tk.user_pin
            other = tk.user_pin if user == K.CKU_SO else tk.so_pin
            pv = prev.get(s.tok, {"U": [], "S": []})["S" if user == K.CKU_SO else "U"]
            nobody = P.login.get(s.tok) is None
            ro_exists = any(not z.rw for z in w.sessions_on(pid, s.tok))
            if nobody and not (user == K.CKU_SO and ro_exists):
                pc = pin_class(pin, cur, pv, other)
                cov.add("login|%s|%s|%s|%s" % ("SO" if user == K.CKU_SO else "USER", pc, where, ok))
                if where == "restart": st("after_restart")
                if where == "coldcopy": st("in_cold_copy")
                if last_rejected: st("rejected_then_verified")
                if pc == "current":
                    st("login_current_ok")
                    if not ok:
                        viols.append(_v("C04.current_pin_refused", "C_Login(%s) with the PIN most recently set (%d bytes) returned %s [%s]%s" % ("SO" if user == K.CKU_SO else "USER", len(pin), K.rvname(rv), where,
                                        (" after rejected " + last_rejected) if last_rejected else ""), call="C_Login", op=k, where=where, rv=K.rvname(rv), after_rejected=last_rejected))
                else:
                    st({"previous": "login_previous_refused", "other_user": "login_other_users_pin_refused", "neighbour": "login_neighbour_refused"}[pc])
                    if ok:
                        viols.append(_v("C04.wrong_pin_accepted", "C_Login(%s) accepted a PIN that is not the current one (%s, %d bytes) [%s]%s" % ("SO" if user == K.CKU_SO else "USER", pc, len(pin), where,
                                        (" after rejected " + last_rejected) if last_rejected else ""), call="C_Login", op=k, where=where, pin_class=pc, after_rejected=last_rejected))
                    elif cur is not None and rv not in (K.CKR_PIN_INCORRECT, K.CKR_PIN_LEN_RANGE, K.CKR_ARGUMENTS_BAD):
                        viols.append(_v("C04.code", "C_Login with a wrong PIN returned %s" % K.rvname(rv), call="C_Login", op=k))
        elif f == "C_InitPIN" and s is not None:
            stt = w.state_of(pid, s.ref); pin = bytes.fromhex(op["pin"])
            expect = stt == K.CKS_RW_SO_FUNCTIONS and 4 <= len(pin) <= 255
            cov.add("initpin|%s|len%s|%s" % (K.name("CKS", stt), lenclass(len(pin)), ok))
            if stt != K.CKS_RW_SO_FUNCTIONS: st("initpin_not_so")
            if ok and not expect:
                viols.append(_v("C04.initpin_accepted", "C_InitPIN succeeded in a %s session with a %d-byte PIN" % (K.name("CKS", stt), len(pin)), call="C_InitPIN", op=k, state=K.name("CKS", stt)))
            if not ok and expect:
                viols.append(_v("C04.initpin_refused", "C_InitPIN in an SO session with a %d-byte PIN returned %s" % (len(pin), K.rvname(rv)), call="C_InitPIN", op=k))
            if ok: st("initpin_ok"); prev.setdefault(s.tok, {"U": [], "S": []}); (w.toks[s.tok].user_pin is not None) and prev[s.tok]["U"].append(w.toks[s.tok].user_pin)
            if not ok and stt == K.CKS_RW_SO_FUNCTIONS and not (4 <= len(pin) <= 255) and rv != K.CKR_PIN_LEN_RANGE:
                viols.append(_v("C04.code", "C_InitPIN with a %d-byte PIN returned %s (CKR_PIN_LEN_RANGE expected)" % (len(pin), K.rvname(rv)), call="C_InitPIN", op=k))
            last_rejected = None if ok else "C_InitPIN"
        elif f == "C_SetPIN" and s is not None and s.tok in w.toks:
            stt = w.state_of(pid, s.ref); old = bytes.fromhex(op["old"]); new = bytes.fromhex(op["new"])
            tk = w.toks[s.tok]
            which = "S" if stt == K.CKS_RW_SO_FUNCTIONS else "U"
            cur = tk.so_pin if which == "S" else tk.user_pin
            expect = s.rw and cur is not None and old == cur and 4 <= len(new) <= 255
            cov.add("setpin|%s|%s|len%s|%s" % (K.name("CKS", stt), "right" if old == cur else "wrong", lenclass(len(new)), ok))
            if ok and not expect:
                viols.append(_v("C04.setpin_accepted", "C_SetPIN succeeded in a %s session (old PIN %s, new PIN %d bytes)" % (K.name("CKS", stt), "correct" if old == cur else "WRONG", len(new)), call="C_SetPIN", op=k, state=K.name("CKS", stt), old_right=(old == cur), newlen=len(new)))
            if not ok and expect:
                viols.append(_v("C04.setpin_refused", "C_SetPIN with the correct old PIN and a %d-byte new PIN in a %s session returned %s" % (len(new), K.name("CKS", stt), K.rvname(rv)), call="C_SetPIN", op=k))
            if ok: st("setpin_ok"); prev.setdefault(s.tok, {"U": [], "S": []})[which].append(cur)
            if not ok and s.rw:
                if not (4 <= len(new) <= 255):
                    st("setpin_len_range")
                    if rv != K.CKR_PIN_LEN_RANGE: viols.append(_v("C04.code", "C_SetPIN with a %d-byte new PIN returned %s (CKR_PIN_LEN_RANGE expected)" % (len(new), K.rvname(rv)), call="C_SetPIN", op=k))
                elif old != cur:
                    st("setpin_wrong_old")
                    if rv != K.CKR_PIN_INCORRECT: viols.append(_v("C04.code", "C_SetPIN with a wrong old PIN returned %s (CKR_PIN_INCORRECT expected)" % K.rvname(rv), call="C_SetPIN", op=k))
            last_rejected = None if ok else "C_SetPIN"
        elif f == "C_GetTokenInfo" and ok and op.get("slot") in w.toks:
            tk = w.toks[op["slot"]]; fl = ret["info"]["flags"]
            st("flags_checked")
            if bool(fl & K.CKF_USER_PIN_INITIALIZED) != (tk.user_pin is not None):
                viols.append(_v("C04.flags", "CKF_USER_PIN_INITIALIZED is %s but the user PIN %s%s" % (bool(fl & K.CKF_USER_PIN_INITIALIZED), "is set" if tk.user_pin is not None else "is not set", (" (after rejected " + last_rejected + ")") if last_rejected else ""), call="C_GetTokenInfo", op=k, after_rejected=last_rejected))
            if not fl & K.CKF_TOKEN_INITIALIZED:
                viols.append(_v("C04.flags", "CKF_TOKEN_INITIALIZED lost", call="C_GetTokenInfo", op=k))
        elif f == "@readout" and s is not None and ok:
            got = {}
            for e, o in zip(ret.get("ids", []), ret.get("objs", [])):
                if e.get("ref"): got[e["ref"]] = o["attrs"].get(str(K.CKA_VALUE), {})
            for ref, val in objvals.items():
                o = w.objs.get(ref)
                if o is None or not o.alive or o.tok != s.tok or val is None: continue
                st("private_object_survived")
                a = got.get(ref)
                if a is None:
                    viols.append(_v("C04.object_lost", "private object %s written before the PIN change is no longer found" % ref, call="C_FindObjects", op=k, where=where))
                elif a.get("v") != val.hex():
                    viols.append(_v("C04.object_unreadable", "private object %s reads %s after the PIN change (expected its %d-byte value)" % (ref, a, len(val)), call="C_GetAttributeValue", op=k, where=where))
        w.apply(pid, op, ret)
        if f == "C_InitToken" and ok:
            for ref in list(objvals):
                if w.objs.get(ref) is None or not w.objs[ref].alive: objvals.pop(ref)
    r.aux["c04"] = (cov, stats)
    return viols[:5]

def lenclass(n):
    return "0" if n == 0 else "<4" if n < 4 else "4" if n == 4 else "255" if n == 255 else ">255" if n > 255 else "mid"

def cover(plan, r):
    cov, stats = r.aux.get("c04", (set(), {}))
    return {"keys": sorted(cov), "nontrivial": stats.get("login_current_ok", 0) > 0 and (stats.get("login_neighbour_refused", 0) + stats.get("login_previous_refused", 0)) > 0, "stats": stats}

TECHNIQUE = "deterministic simulation: seeded PIN-change histories with restarts and a cold second library copy on the simulated disk, login neighbourhood probes judged by a reference model"
CLAIM = ("Seeded exploration: PIN histories are executed by the real library on the simulated disk; after every PIN-changing call (accepted or rejected), after C_Finalize/C_Initialize and in a second "
         "library copy started cold on the same disk, logins with the current PIN, all previous PINs, the other user's PIN and near-miss neighbours are attempted and must succeed iff the bytes equal the "
         "model's current PIN; acceptance rules and named return codes of C_InitPIN/C_SetPIN, the initialised flags and the readability of earlier private objects are compared. Evidence, not proof. "
         "Interrupted PIN changes are C16's.")
NOTE = "Trusted: reference model of the two PINs per token; PIN length range 4..255 as advertised by C_GetTokenInfo."
