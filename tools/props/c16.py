"""C16 - a crash at any point leaves the token usable and loses nothing committed (DESIGN 4, C16)."""
import p11const as K
from p11const import A_bool, A_ulong, A_bytes
from store import StoreW, decode_read, fmt, PIN_TYPES
from gen import RW, RO
from model import World, ref_of_label, tbool
import hist, objs, mechs, decoder

LEVEL = "fault_enumeration"
EVAL_IS_CRASH_STATES = True
QUICK_RUNS = 64
QUICK_BUDGET_S = 110
THOROUGH_RUNS = 10 ** 6
SHRINK_BUDGET = 40
RULE = ("for each sampled victim call (stratified over C_InitToken fresh/re-init, C_InitPIN, C_SetPIN user/SO, C_Login right/wrong PIN, C_CreateObject, C_GenerateKey, C_GenerateKeyPair, C_UnwrapKey, "
        "C_DeriveKey, C_CopyObject, C_SetAttributeValue, C_DestroyObject x small/large object x stdio buffer size) after a seeded prefix that builds 1-2 tokens with both PINs and public/private objects, "
        "ALL crash points of the call are enumerated: the disk state before each mutating file-system operation (create, truncate, every write(2), unlink, mkdir, rmdir) plus torn variants of each write "
        "(prefix cut at 512/4096-byte boundaries, at 4, 8, n-1 and two seeded offsets), de-duplicated by content; each distinct state is restored, a fresh library copy is started cold and the recovery oracle "
        "R1-R5 is evaluated (evaluations = distinct crash states recovered). Distinct+non-trivial: (victim call, file role, phase of the store sequence, manifestation) with recovery evaluated.")
PROBES = ["db_backend_victims", "crash_states", "torn_states", "R1_recovered", "R2_other_tokens_checked", "R3_other_objects_checked", "R4_written_thing_checked", "R5_write_after_recovery", "window_truncated_nothing_written", "window_mid_write", "window_between_stores", "victim_kinds"]
DEATH_IS_VIOLATION = ("died.exit", "died.sanitizer", "died.signal", "died.hang", "died.deadlock")

VICTIMS = ["init_fresh", "init_re", "initpin", "setpin_user", "setpin_so", "login_right", "login_wrong", "create", "create_big", "genkey", "genpair", "unwrap", "derive", "copy", "set", "set_big", "destroy"]

def gen(seed, tier, index):
    g = StoreW(seed, "C16", profile="crash", ntok=(1 if index % 3 else 2))
    r = g.r
    victim = VICTIMS[index % len(VICTIMS)]
    g.knobs["stdio_buf"] = [4096, 512, 8192, 65536][(index // len(VICTIMS)) % 4]
    g.knobs["short_io"] = False
    if index % 5 == 4: g.knobs["conf"]["objectstore.backend"] = "db"     # every fifth victim call runs on the SQLite store: crash points are then SQLite's own writes, truncations and deletions of database and rollback journal
    g.max_objs = 8
    g.force_token = True
    g.begin()
    t = g.toks()[0]
    for tt in g.toks():
        g.s_open(tok=tt, rw=True); g.s_login(user=K.CKU_USER, tok=tt)
    # population: a few objects, at least one private + one public token object on the victim's token
    sv = [s for s in g.live_sessions(1, t) if s.rw][0]
    g.s_create(kind="data", token=True, private=True, sess=sv)
    g.s_create(kind=r.choice(["aes", "generic"]), token=True, private=r.random() < 0.5, sess=sv, flags={"sensitive": False, "extractable": True})
    g.s_create(kind=r.choice(["aes"]), token=True, private=False, sess=sv, flags={"sensitive": False, "extractable": True})
    for _ in range(r.choice([0, 1, 2])): g.s_create(token=True)
    if r.random() < 0.4: g.s_setattr()
    tk = g.w.toks[t]
    old_user = tk.user_pin; old_so = tk.so_pin; new_pin = g.pin()
    pins = {tt: {"user": [g.w.toks[tt].user_pin], "so": [g.w.toks[tt].so_pin]} for tt in g.toks()}
    # baseline read-out of every token right before the victim (user logged in everywhere)
    def baseline(tag):
        for tt in g.toks():
            ss = g.live_sessions(1, tt)
            if ss and g.P().login.get(tt) == "U": g.emit({"act": "readout", "s": ss[0].ref, "tmpl": [], "types": PIN_TYPES, "baseline": tag, "tok": tt})
    vop = None; post = []
    target = None
    if victim in ("init_fresh",):
        baseline("old")
        nt = g.new_tok(); so = g.pin()
        vop = {"f": "C_InitToken", "slot": "FREE", "pin": so.hex(), "label": nt, "out": nt}
        pins[nt] = {"user": [None], "so": [so], "fresh": True}
    elif victim == "init_re":
        baseline("old")
        for s in g.live_sessions(1, t): g.emit({"f": "C_CloseSession", "s": s.ref})
        vop = {"f": "C_InitToken", "slot": t, "pin": old_so.hex(), "label": t + "-re", "out": t}
        pins[t]["user"].append(None)
    elif victim == "initpin":
        baseline("old")
        g.emit({"f": "C_Logout", "s": sv.ref}); g.emit({"f": "C_Login", "s": sv.ref, "user": K.CKU_SO, "pin": old_so.hex()})
        for s in [x for x in g.live_sessions(1, t) if not x.rw]: pass
        vop = {"f": "C_InitPIN", "s": sv.ref, "pin": new_pin.hex()}
        pins[t]["user"].append(new_pin)
    elif victim == "setpin_user":
        baseline("old")
        vop = {"f": "C_SetPIN", "s": sv.ref, "old": old_user.hex(), "new": new_pin.hex()}
        pins[t]["user"].append(new_pin)
    elif victim == "setpin_so":
        baseline("old")
        g.emit({"f": "C_Logout", "s": sv.ref}); g.emit({"f": "C_Login", "s": sv.ref, "user": K.CKU_SO, "pin": old_so.hex()})
        vop = {"f": "C_SetPIN", "s": sv.ref, "old": old_so.hex(), "new": new_pin.hex()}
        pins[t]["so"].append(new_pin)
    elif victim in ("login_right", "login_wrong"):
        baseline("old")
        g.emit({"f": "C_Logout", "s": sv.ref})
        user = r.choice([K.CKU_USER, K.CKU_SO])
        pin = (old_user if user == K.CKU_USER else old_so) if victim == "login_right" else g.near_pin(old_user)
        vop = {"f": "C_Login", "s": sv.ref, "user": user, "pin": pin.hex()}
    else:
        n0 = len(g.ops[0])
        big = victim.endswith("_big")
        if victim.startswith("create"):
            g.s_create(kind="data" if big else r.choice(g.kinds), token=True, private=r.random() < 0.5, sess=sv, **({"vlen": r.choice([9000, 20000, 70000])} if big else {}))
        elif victim == "genkey": g.s_gen()
        elif victim == "genpair": g.s_genpair()
        elif victim == "unwrap": g.s_unwrap()
        elif victim == "derive": g.s_derive()
        elif victim == "copy": g.s_copy()
        elif victim.startswith("set"):
            if big:
                ref = g.s_create(kind="data", token=True, private=r.random() < 0.5, sess=sv, vlen=300)
                n0 = len(g.ops[0])
                o = g.w.objs.get(ref)
                if o: g.emit({"f": "C_SetAttributeValue", "s": sv.ref, "o": ref, "tmpl": [A_bytes(K.CKA_VALUE, objs.rnd(r, r.choice([9000, 30000])))]})
            else: g.s_setattr()
        elif victim == "destroy": g.s_destroy()
        new_ops = g.ops[0][n0:]
        vi = None
        for j, op in enumerate(new_ops):
            if op.get("f") in ("C_CreateObject", "C_GenerateKey", "C_GenerateKeyPair", "C_UnwrapKey", "C_DeriveKey", "C_CopyObject", "C_SetAttributeValue", "C_DestroyObject"): vi = j
        if vi is None:
            # fall back to a simple create
            g.ops[0][n0:] = []
            g.s_create(kind="data", token=True, private=True, sess=sv); new_ops = g.ops[0][n0:]; vi = 0
        vop = new_ops[vi]
        before = new_ops[:vi]; after = new_ops[vi + 1:]
        g.ops[0][n0:] = before
        baseline("old")
        post = after
    g.ops[0].append(vop)   # already applied to the guiding model where it came from a step; for the PIN/token victims apply now
    if victim in ("init_fresh", "init_re", "initpin", "setpin_user", "setpin_so", "login_right", "login_wrong"):
        g.ops[0].pop(); g.emit(vop, ok=(victim != "login_wrong"))
    vidx = len(g.ops[0]) - 1
    g.ops[0][vidx]["keep"] = True
    for op in post: g.ops[0].append(op)
    # the NEW state, read through the same process after the call completed
    if victim in ("initpin", "setpin_so", "init_re", "init_fresh", "login_wrong", "login_right"):
        pass
    else:
        baseline("new")
    # ---- recovery script (same for every crash state)
    # the recovering process initialises the library with or without locking (configuration): with OS locking or application callbacks the library's own
    # mutexes are real, and a recovery path that takes one of them twice hangs
    rlock = ["none", "os", "callbacks"][(index // len(VICTIMS)) % 3]
    rec = [{"act": "start", "locking": rlock}]
    g.extra["recovery_locking"] = rlock
    n = 0
    for tt, pp in pins.items():
        n += 1; s = "R%d" % n
        rec.append({"f": "C_OpenSession", "slot": tt, "flags": RW, "out": s, "rtok": tt})
        for i, p in enumerate(pp["so"]):
            rec.append({"f": "C_Login", "s": s, "user": K.CKU_SO, "pin": p.hex(), "rtok": tt, "who": "so", "which": i})
            rec.append({"f": "C_Logout", "s": s})
        ups = [p for p in pp["user"]]
        for i, p in enumerate(ups):
            if p is None: continue
            rec.append({"f": "C_Login", "s": s, "user": K.CKU_USER, "pin": p.hex(), "rtok": tt, "who": "user", "which": i})
            rec.append({"f": "C_Logout", "s": s})
        for i, p in enumerate(ups):
            if p is None: continue
            rec.append({"f": "C_Login", "s": s, "user": K.CKU_USER, "pin": p.hex(), "rtok": tt, "who": "user-stay", "which": i})
        rec.append({"f": "C_GetTokenInfo", "slot": tt, "rtok": tt})
        rec.append({"act": "readout", "s": s, "tmpl": [], "types": PIN_TYPES, "rtok": tt})
        # R5: the recovered token accepts a further write and a restart
        rec.append({"f": "C_CreateObject", "s": s, "rtok": tt, "r5": True, "tmpl": [A_ulong(K.CKA_CLASS, K.CKO_DATA), A_bool(K.CKA_TOKEN, True), A_bool(K.CKA_PRIVATE, False), A_bytes(K.CKA_LABEL, b"o9999"), A_bytes(K.CKA_VALUE, b"after-recovery")], "out": "O9999"})
    rec.append({"act": "restart", "locking": rlock})
    n = 0
    for tt in pins:
        n += 1; s = "Q%d" % n
        rec.append({"f": "C_OpenSession", "slot": tt, "flags": RW, "out": s, "rtok": tt, "r5": True})
        rec.append({"act": "find", "s": s, "tmpl": [A_bytes(K.CKA_LABEL, b"o9999")], "batches": [], "rtok": tt, "r5": True})
    g.extra["crash"] = {"tid": 0, "op": vidx, "torn": True, "recover": rec, "recover_pid": 2, "max": 160 if tier == "quick" else (400 if g.knobs["conf"].get("objectstore.backend") == "db" else 3000)}
    if tier != "quick": g.knobs["watchdog_s"] = 900       # thousands of recoveries in one child: the real-time watchdog (a guard against a stuck simulator, not an oracle) gets more room
    g.extra["victim"] = victim
    g.extra["pins"] = {tt: {"user": [p.hex() if p is not None else None for p in pp["user"]], "so": [p.hex() for p in pp["so"]], "fresh": pp.get("fresh", False)} for tt, pp in pins.items()}
    vs = g.w.sess(1, vop.get("s")) if "s" in vop else None
    g.extra["victim_token"] = (list(pins)[-1] if victim == "init_fresh" else vs.tok if vs is not None else t)
    return g.plan()

def _v(cls, msg, **kw):
    d = {"class": cls, "msg": msg}; d.update(kw); return d

def window_of(points, st):
    """file role + phase of the store sequence in which the crash happened (computed from the disk log).
    The subject is the object/token file the interrupted store sequence works on (lock-file and directory operations are attributed to it)."""
    i = st["point"]; kind = st["before_kind"]; path = st["before_path"]
    subj = st.get("subject_path", path); role = st.get("subject_role", st["role"])
    if kind == "end": return ("none", "after_call")
    prev_same = [p for p in points[:i] if p[1] == subj]
    later_same = [p for p in points[i:] if p[1] == subj and p[0] in ("write", "truncate")]
    if path == subj:
        if st["torn"] >= 0: return (role, "mid_write")
        if kind == "write":
            if prev_same and prev_same[-1][0] == "truncate": return (role, "truncated_nothing_written")
            if prev_same and prev_same[-1][0] == "write": return (role, "mid_write")
            if prev_same and prev_same[-1][0] == "create": return (role, "created_nothing_written")
            return (role, "before_first_write")
        if kind == "truncate":
            if any(p[0] in ("write", "truncate") for p in prev_same): return (role, "between_stores_of_one_call")
            return (role, "before_truncate")
        if kind == "create": return (role, "before_create")
        if kind == "unlink": return (role, "before_unlink")
        return (role, "before_" + kind)
    # an operation on another file (lock file, directory) while the subject's store sequence is under way
    if not prev_same: return (st["role"], "before_" + kind)
    if later_same: return (role, "between_stores_of_one_call")
    if prev_same[-1][0] == "unlink": return (role, "after_unlink")
    return (role, "after_last_store")

def file_state(cs):
    """what the independent decoder says about the subject file in this crash state.
    empty / generation_cut / generation_only / parseable (ends at an attribute boundary) / type_cut (ends inside the 8-byte attribute-type field) are the
    shapes the pinned loader accepts as a (shorter) valid object; kind_cut / value_cut / garbage it rejects."""
    if cs.get("file_size", -1) < 0: return "missing", None
    if "file_hex" not in cs: return "toolarge", None
    b = bytes.fromhex(cs["file_hex"])
    if len(b) == 0: return "empty", {}
    if len(b) < 8: return "generation_cut", {}
    if len(b) == 8: return "generation_only", {}
    off = 8; n = len(b); attrs = 0
    def u64(o): return int.from_bytes(b[o:o + 8], "big")
    while off < n:
        if off + 8 > n: return "type_cut", None
        off += 8
        if off + 8 > n: return "kind_cut", None
        kind = u64(off); off += 8
        if kind == 1:
            if off + 1 > n: return "value_cut", None
            off += 1
        elif kind == 2:
            if off + 8 > n: return "value_cut", None
            off += 8
        elif kind in (3, 4):
            if off + 8 > n: return "value_cut", None
            ln = u64(off); off += 8
            if off + ln > n: return "value_cut", None
            off += ln
        elif kind == 5:
            if off + 8 > n: return "value_cut", None
            cnt = u64(off); off += 8
            if off + 8 * cnt > n: return "value_cut", None
            off += 8 * cnt
        else:
            return "garbage", None
        attrs += 1
    return "parseable", attrs

LOADER_REJECTS = ("kind_cut", "value_cut", "garbage")

DEFAULTISH = (b"", b"\x00", b"\x01", b"\xff" * 8, b"\x00" * 8)      # the last one: an unsigned long 0 (e.g. CKK_RSA, which P11Object::init gives a private key whose stored CKA_KEY_TYPE is missing)
def classify_incomplete(ch, a, a_new, a_old):
    """every differing attribute is either defaulted/missing (incomplete object) or carries a value that is neither old, new nor a default (corrupt)"""
    for t_ in ch:
        v = decode_read(t_, a.get(str(t_)))
        if isinstance(v, tuple): continue
        if isinstance(v, (bytes, bytearray)) and bytes(v) in DEFAULTISH: continue
        if isinstance(v, (list, dict)) and not v: continue
        if a_new is not None and v == decode_read(t_, a_new.get(str(t_))): continue
        if a_old is not None and v == decode_read(t_, a_old.get(str(t_))): continue
        return "corrupt_value"
    return "incomplete_object"

def check(plan, r):
    viols = []; cov = set(); stats = {}
    def st(k, n=1): stats[k] = stats.get(k, 0) + n
    victim = plan.get("victim"); crash = plan.get("crash") or {}
    vtok = plan.get("victim_token"); pins = plan.get("pins", {})
    w = World(); pids = hist.pid_track(plan)
    base_old = {}; base_new = {}    # tok -> {ref: attrs}
    vop = plan["tasks"][0]["ops"][crash.get("op", 0)] if crash else {}
    vret = None
    for tid, k, op, ret in hist.walk(plan, r):
        pid = pids[tid][k]
        w.apply(pid, op, ret)
        if op.get("baseline") and ret.get("rv") == 0:
            d = {}
            for e, oj in zip(ret.get("ids", []), ret.get("objs", [])):
                if e.get("ref"): d[e["ref"]] = oj["attrs"]
            (base_old if op["baseline"] == "old" else base_new)[op["tok"]] = d
        if k == crash.get("op"): vret = ret
    points = ((r.result or {}).get("crash") or {}).get("points_list", [])
    if vret is None:
        r.aux["c16"] = (cov, stats); return viols
    st("victim_kinds")
    vf = hist.opname(vop); vok = vret.get("rv") == 0
    # what the victim call was writing
    written_refs = set()
    if isinstance(vop.get("o"), str) and vf in ("C_SetAttributeValue", "C_DestroyObject"): written_refs.add(vop["o"])
    outs = vop.get("out") if isinstance(vop.get("out"), list) else [vop.get("out")]
    if vf in ("C_CreateObject", "C_GenerateKey", "C_GenerateKeyPair", "C_UnwrapKey", "C_DeriveKey", "C_CopyObject"): written_refs.update(x for x in outs if x)
    states = [e for e in r.hist if e.get("e") == "crash_state"]
    died_cs = None
    if r.died:
        died_cs = states[-1] if states else None
    for sti, cs in enumerate(states):
        csid = cs["cs"]
        role, phase = window_of(points, cs)
        fstate, fattrs = file_state(cs)
        if plan["knobs"].get("conf", {}).get("objectstore.backend") == "db": fstate, fattrs = "n/a(db)", None     # the object-file shapes mean nothing for a database or its journal
        st("crash_states")
        if cs["torn"] >= 0: st("torn_states")
        if phase == "truncated_nothing_written": st("window_truncated_nothing_written")
        if phase == "mid_write": st("window_mid_write")
        if phase == "between_stores_of_one_call": st("window_between_stores")
        common = dict(call=vf, victim=victim, file_role=role, phase=phase, cs=csid, torn=cs["torn"] >= 0)
        desc = "crash of %s before %s of %s%s [%s/%s]" % (vf, cs["before_kind"], cs["before_path"].split("/")[-1][:20], " (write torn after %d of %d bytes)" % (cs["torn"], cs["wlen"]) if cs["torn"] >= 0 else "", role, phase)
        rets = list(hist.walk(plan, r, cs=csid))
        if died_cs is not None and cs is died_cs:
            d = (r.result or {})
            viols.append(_v("C16.R1", "%s: recovery did not survive (%s)" % (desc, r.why()), target="recovery", manifestation={99: "exit", 77: "crash", 98: "hang", 97: "hang"}.get(d.get("exit"), "crash"), **common))
            break
        st("R1_recovered")
        cov_m = set()
        by_tok = {}
        for tid, k, op, ret in rets:
            if op.get("rtok"): by_tok.setdefault(op["rtok"], []).append((op, ret))
        start_ret = rets[0][3] if rets else {}
        if start_ret.get("rv") != 0:
            viols.append(_v("C16.R1", "%s: C_Initialize of the recovering process returned %s" % (desc, K.rvname(start_ret.get("rv"))), target="recovery", manifestation="init_failed", **common)); continue
        listed = {}
        for sl in start_ret.get("scan", {}).get("slots", []):
            if sl.get("ref") and sl["ref"] != "FREE": listed[sl["ref"]] = sl
        for tok, pp in pins.items():
            is_v = (tok == vtok)
            fresh = pp.get("fresh")
            wtok = w.toks.get(tok)
            # ---- token listed?
            if tok not in listed:
                if fresh: cov_m.add("fresh_absent"); continue      # a token being created may be absent
                viols.append(_v("C16.R2" if not is_v else "C16.R4", "%s: token %s is no longer listed after recovery" % (desc, tok), target="other_token" if not is_v else "token_pins", manifestation="token_lost", **common)); continue
            ops = by_tok.get(tok, [])
            logins = {}
            for op, ret in ops:
                if op.get("f") == "C_Login" and op.get("who") in ("so", "user"): logins[(op["who"], op["which"])] = ret.get("rv")
                if op.get("f") == "C_OpenSession" and not op.get("r5") and ret.get("rv") != 0:
                    viols.append(_v("C16.R2" if not is_v else "C16.R4", "%s: C_OpenSession on token %s returned %s" % (desc, tok, K.rvname(ret.get("rv"))), target="other_token" if not is_v else "token_pins", manifestation="token_unusable", **common))
            # ---- PINs
            for who in ("so", "user"):
                cands = pp[who]
                oks = [i for i in range(len(cands)) if cands[i] is not None and logins.get((who, i)) == 0]
                pin_victim = is_v and ((who == "user" and victim in ("setpin_user", "initpin", "init_re")) or (who == "so" and victim == "setpin_so"))
                if not is_v: st("R2_other_tokens_checked")
                if pin_victim:
                    st("R4_written_thing_checked")
                    real = [i for i in range(len(cands)) if cands[i] is not None]
                    allow_none = any(c is None for c in cands)     # "no user PIN" is the old (initpin on a fresh token) or new (re-init) state
                    if len(oks) > 1 and cands[oks[0]] != cands[oks[1]]:
                        viols.append(_v("C16.R4", "%s: both the old and the new %s PIN log in" % (desc, who), target="token_pins", manifestation="both_pins_valid", **common))
                    if not oks and not allow_none:
                        viols.append(_v("C16.R4", "%s: neither the old nor the new %s PIN of token %s logs in (%s)" % (desc, who, tok, [K.rvname(logins.get((who, i))) for i in real]), target="token_pins", manifestation="pins_lost", who=who, **common))
                    cov_m.add("pin_%s_%s" % (who, "old" if oks == [0] else "new" if oks else "none"))
                else:
                    cur = [i for i in range(len(cands)) if cands[i] is not None]
                    if not cur: continue
                    i = cur[0]
                    if logins.get((who, i)) != 0:
                        if fresh and who == "so":
                            viols.append(_v("C16.R4", "%s: the freshly initialised token %s is listed but its SO PIN does not log in (%s): half-initialised token" % (desc, tok, K.rvname(logins.get((who, i)))), target="token_pins", manifestation="pins_lost", who=who, **common))
                        else:
                            viols.append(_v("C16.R2" if not is_v else "C16.R4", "%s: the %s PIN of token %s no longer logs in (%s)%s" % (desc, who, tok, K.rvname(logins.get((who, i))), "" if is_v else " - a token the call was not writing"),
                                        target="token_pins" if is_v else "other_token", manifestation="pins_lost", who=who, **common))
            # ---- objects
            ro = [(op, ret) for op, ret in ops if op.get("act") == "readout"]
            if not ro or ro[0][1].get("rv") != 0:
                if not (fresh or victim == "init_re" and is_v):
                    pass
                continue
            ret = ro[0][1]
            got = {}; unid = 0; multi = {}
            for e, oj in zip(ret.get("ids", []), ret.get("objs", [])):
                if e.get("ref") and e["ref"] != "O9999": multi.setdefault(e["ref"], []).append(oj["attrs"])
                elif not e.get("ref"): unid += 1
            user_in = any(op.get("who") == "user-stay" and rr.get("rv") == 0 for op, rr in ops)
            old = base_old.get(tok, {}); new = base_new.get(tok, old)
            half_copies = 0
            for ref_, lst in multi.items():
                got[ref_] = lst[-1]
                if len(lst) > 1 and vf == "C_CopyObject" and vop.get("o") == ref_ and is_v:
                    # C_CopyObject first stores the SOURCE's attributes (label included) in the new file and applies the template afterwards: an interrupted
                    # copy can carry the source's label. The entry that equals the source's old state IS the source; the others are the half-made copy.
                    same_ = [a_ for a_ in lst if old.get(ref_) is not None and not diff_attrs(old[ref_], a_)]
                    if same_: got[ref_] = same_[0]; half_copies += len(lst) - 1
            if half_copies:
                viols.append(_v("C16.R4", "%s: a search returns %d half-made cop%s of %s still carrying the source's label (subject file: %s): a half-written object is returned as a valid object" % (desc, half_copies, "y" if half_copies == 1 else "ies", vop.get("o"), fstate),
                                target="written_object", manifestation="invalid_returned" if fstate in LOADER_REJECTS else "incomplete_object", file_state=fstate, **common))
            if unid and is_v:
                viols.append(_v("C16.R4", "%s: a search returns %d object(s) without readable label (subject file: %s): a half-written object is returned as a valid object" % (desc, unid, fstate), target="written_object",
                                manifestation="invalid_returned" if fstate in LOADER_REJECTS else "incomplete_object", file_state=fstate, **common))
            elif unid:
                viols.append(_v("C16.R3", "%s: token %s, which the call was not writing, returns %d object(s) without readable label" % (desc, tok, unid), target="other_token", manifestation="incomplete_object", **common))
            reinit_victim = (victim == "init_re" and is_v)
            for ref in sorted(set(old) | set(new) | set(got)):
                is_w = ref in written_refs
                o = w.objs.get(ref)
                private = (o.private if o is not None else True)
                if private and not user_in: continue     # cannot be judged without the user PIN (its loss is reported above)
                a_old = old.get(ref); a_new = new.get(ref); a = got.get(ref)
                if not is_w and not reinit_victim:
                    if a_old is None: continue
                    st("R3_other_objects_checked")
                    if a is None:
                        viols.append(_v("C16.R3", "%s: object %s, which the call was not writing, is gone" % (desc, ref), target="other_object", manifestation="absent", **common)); continue
                    ch = diff_attrs(a_old, a)
                    if ch:
                        viols.append(_v("C16.R3", "%s: %s of untouched object %s reads %s (was %s)" % (desc, K.name("CKA", ch[0]), ref, fmt(decode_read(ch[0], a.get(str(ch[0])))), fmt(decode_read(ch[0], a_old.get(str(ch[0]))))), target="other_object", manifestation="wrong_value", **common))
                    continue
                st("R4_written_thing_checked")
                # old-or-new
                if reinit_victim:
                    if a is not None and a_old is not None and diff_attrs(a_old, a):
                        viols.append(_v("C16.R4", "%s: object %s survives the interrupted re-initialisation with changed attributes" % (desc, ref), target="written_object", manifestation="wrong_value", **common))
                    continue
                if vf == "C_DestroyObject": a_new = None
                if not vok: a_new = a_old     # the call itself failed: only the old state is legitimate
                if phase == "after_call" and vok: a_old = a_new   # the call had returned: only the new state is legitimate
                states_ok = []
                if a is None: states_ok.append(a_old is None or a_new is None or vf != "C_SetAttributeValue" and a_old is None)
                if a is None:
                    if a_old is None or a_new is None: cov_m.add("w_absent"); continue
                    viols.append(_v("C16.R4", "%s: object %s, which the call was rewriting, is gone (neither old nor new state)" % (desc, ref), target="written_object", manifestation="absent", **common)); continue
                if a_old is not None and not diff_attrs(a_old, a): cov_m.add("w_old"); continue
                if a_new is not None and not diff_attrs(a_new, a): cov_m.add("w_new"); continue
                refa = a_new if a_new is not None else a_old
                ch = diff_attrs(refa, a) if refa is not None else []
                man = "invalid_returned" if fstate in LOADER_REJECTS else classify_incomplete(ch, a, a_new, a_old)
                viols.append(_v("C16.R4", "%s: object %s is returned as a valid object that is neither in its old nor in its new state (subject file: %s): %s" % (desc, ref, fstate, ", ".join("%s=%s" % (K.name("CKA", t_), fmt(decode_read(t_, a.get(str(t_))))) for t_ in ch[:4])),
                                target="written_object", manifestation=man, file_state=fstate, attrs=[K.name("CKA", t_) for t_ in ch[:6]], **common))
            # ---- R5
            r5 = [(op, ret) for op, ret in ops if op.get("r5")]
            created = [ret for op, ret in r5 if op.get("f") == "C_CreateObject"]
            found = [ret for op, ret in r5 if op.get("act") == "find"]
            if created:
                st("R5_write_after_recovery")
                if created[0].get("rv") != 0:
                    viols.append(_v("C16.R5", "%s: the recovered token %s refuses a further write: C_CreateObject returned %s" % (desc, tok, K.rvname(created[0].get("rv"))), target="recovery", manifestation="wedged", **common))
                elif found and (found[0].get("rv") != 0 or not any(e.get("ref") == "O9999" for e in found[0].get("ids", []))):
                    viols.append(_v("C16.R5", "%s: an object written after recovery is not found after the next restart (token %s)" % (desc, tok), target="recovery", manifestation="wedged", **common))
        for m in cov_m or {"checked"}:
            cov.add("%s|%s|%s|%s" % (victim, role, phase, m))
    backend = plan["knobs"].get("conf", {}).get("objectstore.backend", "file")
    if backend == "db": st("db_backend_victims")
    for v in viols: v["backend"] = backend
    r.aux["c16"] = (cov, stats)
    # one per (class, target, manifestation, file_role, phase)
    seen = set(); out = []
    for v in viols:
        key = (v["class"], v.get("target"), v.get("manifestation"), v.get("file_role"), v.get("phase"))
        if key in seen: continue
        seen.add(key); out.append(v)
    return out[:12]

SKIP_DIFF = {K.CKA_VALUE_LEN}
def diff_attrs(a, b):
    out = []
    for t in sorted(set(a) | set(b), key=int):
        if int(t) in SKIP_DIFF: continue
        if decode_read(int(t), a.get(t)) != decode_read(int(t), b.get(t)): out.append(int(t))
    return out

def cover(plan, r):
    cov, stats = r.aux.get("c16", (set(), {}))
    return {"keys": sorted(cov), "nontrivial": stats.get("R1_recovered", 0) > 0, "stats": stats}

TECHNIQUE = "deterministic simulation with crash-point enumeration: disk snapshots before every mutating file operation of the victim call (plus torn writes), each restored and recovered by a cold library copy"
CLAIM = ("Fault enumeration: for every sampled victim call all of its crash points are explored - because the simulator owns the disk, the state a dying process leaves before each create/truncate/write/unlink of the call "
         "(and after a torn prefix of each write) is restored exactly, a second library copy is started cold on it and the recovery oracle is evaluated: R1 recovery returns (no exit/abort/sanitizer report/hang), "
         "R2 other tokens and their PINs intact, R3 untouched objects intact attribute by attribute, R4 the written object/PIN is in its old or its new state and no half-written object is returned as valid, "
         "R5 the token accepts a further write and a restart. Which calls and histories are sampled is seeded; within a sampled call the enumeration is complete up to content-identical states.")
NOTE = "Crash model: process death (user-space buffers lost, everything handed to the kernel survives; the library never calls fsync, power loss is out of scope). Trusted: simfs, the recovery script, baselines read through the API before and after the victim call. Every fifth victim call runs on the SQLite object store: crash points are then SQLite's own writes, truncations and deletions of database and rollback journal, recovery includes its hot-journal roll-back."
