"""C19 - object search is sound and complete (DESIGN 4, C19)."""
import p11const as K
from p11const import A_bool, A_ulong, A_bytes
from workload import OW
from model import World, ref_of_label
import hist, objs

LEVEL = "exploration"
QUICK_RUNS = 1500
QUICK_BUDGET_S = 75
THOROUGH_RUNS = 10 ** 7
RULE = ("seeded populations of 0-12 objects (9 kinds; token/session, private/public, shared ids/applications/values, empty values) on 1-2 tokens in several "
        "sessions; searches with templates of 0-4 entries drawn from existing values, perturbed values, attributes the object lacks, wrong-sized and empty "
        "values, in every login state, with batch sizes 0,1,2,n-1,n,n+1 until exhaustion, repeated after destroy/logout/close/restart. The multiset of "
        "objects returned (identified by harness tag) is compared with the reference model's answer. Distinct+non-trivial: (login state, template shape, "
        "#expected bucket, batch pattern) with a non-empty population.")
PROBES = ["search_checked", "nonempty_expected", "private_hidden", "private_shown", "session_objects_expected", "other_token_excluded", "multi_batch", "zero_batch", "after_restart", "wrongsize_entry", "lacking_attr_entry", "empty_value_entry"]
DEATH_IS_VIOLATION = ()

SAFE = [K.CKA_CLASS, K.CKA_TOKEN, K.CKA_PRIVATE, K.CKA_LABEL, K.CKA_ID, K.CKA_APPLICATION, K.CKA_VALUE, K.CKA_KEY_TYPE, K.CKA_CERTIFICATE_TYPE,
        K.CKA_MODULUS, K.CKA_EC_PARAMS, K.CKA_SENSITIVE, K.CKA_EXTRACTABLE, K.CKA_ENCRYPT, K.CKA_DECRYPT, K.CKA_SIGN, K.CKA_VERIFY, K.CKA_WRAP, K.CKA_UNWRAP, K.CKA_DERIVE]
BOOLS = {K.CKA_TOKEN, K.CKA_PRIVATE, K.CKA_SENSITIVE, K.CKA_EXTRACTABLE, K.CKA_ENCRYPT, K.CKA_DECRYPT, K.CKA_SIGN, K.CKA_VERIFY, K.CKA_WRAP, K.CKA_UNWRAP, K.CKA_DERIVE}
ULONGS = {K.CKA_CLASS, K.CKA_KEY_TYPE, K.CKA_CERTIFICATE_TYPE}

W = {"open": 8, "close": 4, "closeall": 1, "login": 8, "logout": 5, "create": 30, "destroy": 6, "copy": 4, "restart": 1.5, "setlabel": 1, "search": 32}

KEY_KINDS = ("aes", "generic", "des3", "rsa_pub", "rsa_priv", "ec_pub", "ec_priv", "dsa_priv", "dh_priv")
KEY_CLASSES = (K.CKO_SECRET_KEY, K.CKO_PUBLIC_KEY, K.CKO_PRIVATE_KEY)

class GW(OW):
    def s_create(self, tid=0, pid=1, **kw):
        r = self.r
        kw.setdefault("idv", r.choice([b"", b"\x01", b"ab", b"ab", bytes([r.randrange(256)])]))
        if r.random() < 0.3: kw.setdefault("vlen", r.choice([0, 1, 16]))
        return super().s_create(tid, pid, **kw)

    def tweak_template(self, kind, tmpl):
        # a third of the keys are created WITHOUT CKA_ID: the attribute then exists with its default, the empty string (stored as such, not encrypted,
        # also in a private object), and a search for CKA_ID = "" must find them, a search for any other value must not
        if kind in KEY_KINDS and self.r.random() < 0.33: return [e for e in tmpl if e[0] != K.CKA_ID]
        return tmpl

    def s_search(self, tid=0, pid=1):
        r = self.r
        live = self.live_sessions(pid)
        if not live: return False
        s = r.choice(live)
        pool = [o for o in self.w.objs.values() if o.alive]
        tmpl = []
        n = r.choice([0, 0, 1, 1, 1, 2, 2, 3, 4])
        base = r.choice(pool) if pool else None
        for _ in range(n):
            x = r.random()
            if base is not None and x < 0.62:
                cands = [t for t in base.attrs if t in SAFE]
                if not cands: continue
                t = r.choice(cands); v = base.attrs[t]
                y = r.random()
                if y < 0.7: pass
                elif y < 0.8 and v: v = v[:-1] + bytes([v[-1] ^ 1])
                elif y < 0.87: v = v + b"\x00"            # wrong size / extension
                elif y < 0.93 and v: v = v[:-1]            # prefix
                else: v = b""
                tmpl.append([t, "x", v.hex()])
            elif x < 0.8:
                t = r.choice(SAFE + [K.CKA_ID, K.CKA_ID, K.CKA_ID])      # CKA_ID is the attribute some keys hold only as a default
                if t in BOOLS: v = bytes([r.choice([0, 1, 1, 2])])
                elif t in ULONGS: v = r.choice([0, 1, 2, 3, 4, 16, 21, 31]).to_bytes(8, "little")
                else: v = r.choice([b"", b"ab", b"\x01", b"app0", b"app1", b"zz"])
                tmpl.append([t, "x", v.hex()])
            else:
                o2 = r.choice(pool) if pool else None
                if o2 is None: continue
                cands = [t for t in o2.attrs if t in SAFE]
                if cands:
                    t = r.choice(cands); tmpl.append([t, "x", o2.attrs[t].hex()])
        if r.random() < 0.1:
            # two entries with the SAME value, the second on an attribute the object holds only as its (empty) default: whatever the first comparison leaves
            # behind must not decide the second
            lacking = [o for o in pool if K.CKA_ID not in o.attrs and K.CKA_LABEL in o.attrs and int.from_bytes(o.attrs.get(K.CKA_CLASS, b"\xff"), "little") in KEY_CLASSES]
            if lacking:
                o3 = r.choice(lacking); tmpl = [[K.CKA_LABEL, "x", o3.attrs[K.CKA_LABEL].hex()], [K.CKA_ID, "x", o3.attrs[K.CKA_LABEL].hex()]]
        nvis = len(self.w.visible(pid, s.ref))
        b = r.choice([[], [], [1], [2], [1, 2], [0, 3], [max(nvis - 1, 1)], [max(nvis, 1)], [nvis + 1], [1, 0, 1], [3, 1]])
        self.emit({"act": "find", "s": s.ref, "tmpl": tmpl, "batches": b}, tid)
        return True

def gen(seed, tier, index):
    g = GW(seed, "C19")
    r = g.r
    g.begin()
    for t in g.toks():
        g.s_open(tok=t, rw=True)
    if r.random() < 0.7: g.s_login(user=K.CKU_USER)
    n = r.choice([6, 10, 16, 24, 40]) if tier == "quick" else r.choice([10, 20, 40, 80])
    for _ in range(n):
        g.step(W)
    return g.plan()

def _v(cls, msg, **kw):
    d = {"class": cls, "msg": msg}; d.update(kw); return d

def matches(o, tmpl):
    for e in tmpl:
        t = e[0]; v = bytes.fromhex(e[2]) if e[1] == "x" else None
        if t not in o.attrs:
            # every key object HAS a CKA_ID; one that was created without it holds the default, the empty string
            if t == K.CKA_ID and int.from_bytes(o.attrs.get(K.CKA_CLASS, b"\xff"), "little") in KEY_CLASSES: ov = b""
            else: return False
        else: ov = o.attrs[t]
        if t in BOOLS:
            if len(v) != 1: return False
            if (ov != b"\x00") != (v == b"\x01"): return False
        elif t in ULONGS:
            if len(v) != 8 or v != ov: return False
        else:
            if v != ov: return False
    return True

def check(plan, r):
    viols = []; cov = set(); stats = {}
    def st(k, n=1): stats[k] = stats.get(k, 0) + n
    w = World(); pids = hist.pid_track(plan); restarted = False
    for tid, k, op, ret in hist.walk(plan, r):
        pid = pids[tid][k]; P = w.proc(pid)
        f = hist.opname(op); rv = ret.get("rv")
        if f == "@restart": restarted = True
        if f == "@find" and w.sess(pid, op.get("s")) is not None:
            s = w.sess(pid, op["s"]); tmpl = op.get("tmpl", [])
            if rv != 0:
                viols.append(_v("C19.search_failed", "C_FindObjectsInit on a live session returned %s" % K.rvname(rv), call="C_FindObjectsInit", op=k))
            else:
                vis = w.visible(pid, s.ref)
                exp = sorted(o.ref for o in vis if matches(o, tmpl))
                got = []; unknown = []
                for e in ret.get("ids", []):
                    ref = e.get("ref") or P.h2obj.get(e["h"])
                    if ref: got.append(ref)
                    else: unknown.append(e)
                got.sort()
                handles = [h for b in ret.get("batches", []) for h in b.get("h", [])]
                st("search_checked")
                if exp: st("nonempty_expected")
                hidden = [o for o in w.objs.values() if o.alive and o.tok == s.tok and o.private and matches(o, tmpl) and w.obj_live_in(pid, o)]
                if hidden and not w.user_logged_in(pid, s.tok): st("private_hidden")
                if any(w.objs[x].private for x in exp): st("private_shown")
                if any(not w.objs[x].token for x in exp): st("session_objects_expected")
                if any(o.alive and o.tok != s.tok and matches(o, tmpl) for o in w.objs.values()): st("other_token_excluded")
                nb = [b for b in ret.get("batches", []) if b["max"] > 0 and b["n"] > 0]
                if len(nb) > 1: st("multi_batch")
                if any(b["max"] == 0 for b in ret.get("batches", [])): st("zero_batch")
                if restarted: st("after_restart")
                for e in tmpl:
                    v = bytes.fromhex(e[2])
                    if e[0] in BOOLS and len(v) != 1 or e[0] in ULONGS and len(v) != 8: st("wrongsize_entry")
                    if not v: st("empty_value_entry")
                    if vis and any(e[0] not in o.attrs for o in vis): st("lacking_attr_entry")
                cov.add("find|%s|n%d|exp%d|b%s" % (P.login.get(s.tok), len(tmpl), min(len(exp), 4), "-".join(str(min(x, 3)) for x in op.get("batches", [])[:3])))
                if len(set(handles)) != len(handles):
                    viols.append(_v("C19.duplicate", "a handle was returned more than once over the C_FindObjects calls: %s" % handles, call="C_FindObjects", op=k))
                for b in ret.get("batches", []):
                    if b["rv"] == 0 and b["n"] > b["max"]:
                        viols.append(_v("C19.batch_overflow", "C_FindObjects(max=%d) reported %d objects" % (b["max"], b["n"]), call="C_FindObjects", op=k))
                bs = ret.get("batches", [])
                seen_short = False
                for b in bs:
                    if b["rv"] != 0:
                        viols.append(_v("C19.find_failed", "C_FindObjects returned %s" % K.rvname(b["rv"]), call="C_FindObjects", op=k)); break
                    if seen_short and b["n"] > 0:
                        viols.append(_v("C19.after_exhaustion", "C_FindObjects returned %d more objects after a call that returned fewer than asked" % b["n"], call="C_FindObjects", op=k))
                    if b["max"] > 0 and b["n"] < b["max"]: seen_short = True
                if unknown:
                    viols.append(_v("C19.unidentified", "search returned %d object(s) the session could not identify (label unreadable): %s" % (len(unknown), unknown[:3]), call="C_FindObjects", op=k))
                if got != exp and not unknown:
                    extra = sorted(set(got) - set(exp)); missing = sorted(set(exp) - set(got))
                    def why(ref):
                        o = w.objs.get(ref)
                        if o is None: return "unknown object"
                        if not o.alive: return "destroyed"
                        if o.tok != s.tok: return "other token"
                        if not w.obj_live_in(pid, o): return "session object of a closed session"
                        if o.private and not w.user_logged_in(pid, s.tok): return "private, user not logged in"
                        if not matches(o, tmpl): return "does not match the template"
                        return "?"
                    viols.append(_v("C19.wrong_result", "search(template %s, login=%s) returned %s, the model expects %s; extra: %s; missing: %s" % (
                        [(K.name("CKA", e[0]), e[2][:24]) for e in tmpl], P.login.get(s.tok), got, exp, [(x, why(x)) for x in extra], missing),
                        call="C_FindObjects", op=k, extra=[why(x) for x in extra][:3], missing=bool(missing), dup=len(got) != len(set(got))))
        w.apply(pid, op, ret)
    r.aux["c19"] = (cov, stats)
    return viols[:5]

def cover(plan, r):
    cov, stats = r.aux.get("c19", (set(), {}))
    return {"keys": sorted(cov), "nontrivial": stats.get("nonempty_expected", 0) > 0, "stats": stats}

TECHNIQUE = "deterministic simulation: seeded population/template/batch search histories compared with a reference model's answer (multiset of harness tags)"
CLAIM = ("Seeded exploration: object populations, login states, templates and batch sequences are generated, executed by the real library in the simulator "
         "and every search result (all batches, plus one call after exhaustion) is compared as a multiset with what the reference model says the session may see and the template matches. Evidence, not proof.")
NOTE = "Trusted: reference model (visibility + typed matching on attributes the harness supplied; of the attributes with library-chosen defaults only CKA_ID of keys (default: empty) is used in templates). Concurrent searches: C15/C18."
