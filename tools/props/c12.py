"""C12 - one active operation per session and an honest output-length protocol (DESIGN 4, C12)."""
import hashlib
import p11const as K
from p11const import A_bool, A_ulong, A_bytes
from gen import G, RW, RO
from model import World
import hist, objs, mechs

LEVEL = "exploration"
QUICK_RUNS = 2500
QUICK_BUDGET_S = 90
THOROUGH_RUNS = 10 ** 7
RULE = ("seeded interleavings, in 1-3 sessions, of Init / single-part / Update / Final / size-query (NULL output) / too-small-buffer calls of every operation family (encrypt, decrypt, sign, verify, digest, find) over "
        "representative mechanisms of each shape (AES-ECB/CBC block, CBC-PAD padded, CTR stream, GCM AEAD, HMAC, CMAC, SHA digests, RSA PKCS#1 sign/encrypt/decrypt, SHA256-RSA multi-part, ECDSA), with chunk sizes around "
        "the block size, announced sizes null / 0 / reported-1 / exactly the reported length / larger, foreign *Init and foreign continuation calls thrown in, and continuation calls before Init and after completion. "
        "A per-session automaton (active family or none, bytes fed and returned) judges every return code the statement names, every reported length against the statement's bounds, every buffer against its canary, "
        "and each completed multi-part result against the single-part result of the same bytes computed in another session. Distinct+non-trivial: (family, mechanism, step kind, buffer class, automaton state, return code).")
PROBES = ["failed_on_damaged_input", "op_active_refused", "not_initialized_before", "not_initialized_after_done", "not_initialized_after_error", "foreign_continuation", "size_query", "too_small", "retry_exact_ok", "length_bounds_checked", "canary_checked",
          "multipart_equals_single", "first_op_survives_foreign_init", "two_sessions_interleaved", "verify_ok", "decrypt_roundtrip"]
DEATH_IS_VIOLATION = ()

def MECHS(r):
    iv = objs.rnd(r, 16)
    return [
        # name, families, key kind, mechanism, block size, shape, tag bytes, multi-part allowed, fixed output size
        ("AES_ECB", ("enc", "dec"), "aes", mechs.simple(K.CKM_AES_ECB), 16, "block", 0, True, None),
        ("AES_CBC", ("enc", "dec"), "aes", mechs.simple(K.CKM_AES_CBC, iv), 16, "block", 0, True, None),
        ("AES_CBC_PAD", ("enc", "dec"), "aes", mechs.simple(K.CKM_AES_CBC_PAD, iv), 16, "pad", 0, True, None),
        ("AES_CTR", ("enc", "dec"), "aes", mechs.ctr(128, iv), 16, "stream", 0, True, None),
        ("AES_GCM", ("enc", "dec"), "aes", mechs.gcm(objs.rnd(r, 12), objs.rnd(r, r.choice([0, 9])), 128), 16, "aead", 16, True, None),
        ("DES3_CBC_PAD", ("enc", "dec"), "des3", mechs.simple(K.CKM_DES3_CBC_PAD, iv[:8]), 8, "pad", 0, True, None),
        ("SHA256_HMAC", ("sign", "verify"), "generic", mechs.simple(K.CKM_SHA256_HMAC), 64, "mac", 0, True, 32),
        ("AES_CMAC", ("sign", "verify"), "aes", mechs.simple(K.CKM_AES_CMAC), 16, "mac", 0, True, 16),
        ("RSA_PKCS_SIGN", ("sign", "verify"), "rsa", mechs.simple(K.CKM_RSA_PKCS), 0, "asym", 0, False, 128),
        ("SHA256_RSA_PKCS", ("sign", "verify"), "rsa", mechs.simple(K.CKM_SHA256_RSA_PKCS), 0, "asym", 0, True, 128),
        ("ECDSA", ("sign", "verify"), "ec", mechs.simple(K.CKM_ECDSA), 0, "asym_rand", 0, False, 64),
        ("RSA_PKCS_ENC", ("enc", "dec"), "rsa", mechs.simple(K.CKM_RSA_PKCS), 0, "asym_rand", 0, False, 128),
        ("SHA256", ("digest",), None, mechs.simple(K.CKM_SHA256), 64, "digest", 0, True, 32),
        ("SHA_1", ("digest",), None, mechs.simple(K.CKM_SHA_1), 64, "digest", 0, True, 20),
        ("SHA512", ("digest",), None, mechs.simple(K.CKM_SHA512), 128, "digest", 0, True, 64),
        ("MD5", ("digest",), None, mechs.simple(K.CKM_MD5), 64, "digest", 0, True, 16),
    ]

FN = {"enc": ("C_EncryptInit", "C_Encrypt", "C_EncryptUpdate", "C_EncryptFinal"), "dec": ("C_DecryptInit", "C_Decrypt", "C_DecryptUpdate", "C_DecryptFinal"),
      "sign": ("C_SignInit", "C_Sign", "C_SignUpdate", "C_SignFinal"), "verify": ("C_VerifyInit", "C_Verify", "C_VerifyUpdate", "C_VerifyFinal"),
      "digest": ("C_DigestInit", "C_Digest", "C_DigestUpdate", "C_DigestFinal"), "find": ("C_FindObjectsInit", None, "C_FindObjects", "C_FindObjectsFinal")}
FAM_OF = {}
for fam, fns in FN.items():
    for i, fn in enumerate(fns):
        if fn: FAM_OF[fn] = (fam, ("init", "single", "update", "final")[i])
FAM_OF["C_DigestKey"] = ("digest", "update")

def gen(seed, tier, index):
    g = G(seed, "C12"); r = g.r
    g.emit({"act": "start"})
    so = g.pin(); up = g.pin()
    tok = g.setup_token(0, so_pin=so, upin=up)
    nsess = r.choice([1, 2, 2, 3])
    sess = []
    for _ in range(nsess + 1):
        s = g.new_sess(); g.emit({"f": "C_OpenSession", "slot": tok, "flags": RW, "out": s}); sess.append(s)
    sref = sess.pop()     # helper session for the reference (single-part) computations
    g.emit({"f": "C_Login", "s": sref, "user": K.CKU_USER, "pin": up.hex()})
    keys = {}
    def mk(kind, name, **kw):
        ref = g.new_obj(); tm, info = objs.make(kind, ref, r, token=False, private=False, **kw)
        g.emit({"f": "C_CreateObject", "s": sref, "tmpl": tm, "out": ref}); keys[name] = ref
    mk("aes", "aes", vlen=r.choice([16, 32])); mk("generic", "generic", vlen=48); mk("des3", "des3")
    mk("rsa_priv", "rsa_priv", flags={"pool": 0}); mk("rsa_pub", "rsa_pub", flags={"pool": 0}); mk("ec_priv", "ec_priv", flags={"pool": 0}); mk("ec_pub", "ec_pub", flags={"pool": 0})
    table = MECHS(r)
    nep = r.choice([1, 2, 2, 3]) if tier == "quick" else r.choice([2, 3, 5])
    episodes = []; tail = []
    for e in range(nep):
        name, fams, kk, mech, bs, shape, tag, multi, fixed = r.choice(table) if index % 4 else table[(index // 4 + e) % len(table)]
        fam = r.choice(fams)
        s = sess[e % len(sess)]
        prep, ops, refops = episode(g, r, e, s, sref, fam, name, kk, mech, bs, shape, multi, keys)
        for op in prep:      # ciphertext / signature made by the helper session BEFORE the operation under test starts
            op.pop("_s", None); g.emit(op, ok=False)
        episodes.append((s, ops)); tail += refops
    # interleave the episodes op by op (episodes in the same session stay sequential)
    by_sess = {}
    for s_, ops in episodes:
        if ops: by_sess.setdefault(s_, []).extend(ops)
    queues = list(by_sess.values())
    while any(queues):
        q = r.choice([x for x in queues if x])
        for _ in range(r.randint(1, 3)):
            if q:
                op = q.pop(0); op.pop("_s", None); g.emit(op, ok=False)
    for op in tail:
        op.pop("_s", None); g.emit(op, ok=False)
    return g.plan(nsessions=len(by_sess))

def keyfor(fam, kk, keys):
    if kk is None: return None
    if kk == "rsa": return keys["rsa_priv"] if fam in ("sign", "dec") else keys["rsa_pub"]
    if kk == "ec": return keys["ec_priv"] if fam == "sign" else keys["ec_pub"]
    return keys[kk]

def episode(g, r, e, s, sref, fam, name, kk, mech, bs, shape, multi, keys):
    """one operation in session s: a valid skeleton with perturbations inserted; plus the reference computation in the helper session"""
    ops = []
    def E(op): op["_s"] = s; op["ep"] = e; ops.append(op)
    fi, fs, fu, ff = FN[fam]
    key = keyfor(fam, kk, keys)
    # ---- the data
    if shape == "block": n = r.choice([16, 32, 48, 64, 80])
    elif shape in ("asym", "asym_rand") and not multi: n = r.choice([20, 32]) if name != "RSA_PKCS_ENC" else r.choice([1, 16, 100])
    else: n = r.choice([0, 1, 15, 16, 17, 31, 32, 33, 47, 64, 100, 130])
    data = objs.rnd(r, n)
    src_name = None
    # reference / preparation in the helper session
    if fam == "dec":
        # ciphertext made by the helper session
        src_name = "ct%d" % e
        ops.append({"_s": sref, "ep": e, "f": "C_EncryptInit", "s": sref, "mech": mech, "key": keyfor("enc", kk, keys), "ref": True})
        ops.append({"_s": sref, "ep": e, "f": "C_Encrypt", "s": sref, "in": data.hex(), "outcap": n + 300, "save": src_name, "ref": True, "plain": data.hex()})
        total = None
    if fam == "verify":
        src_name = "sig%d" % e
        ops.append({"_s": sref, "ep": e, "f": "C_SignInit", "s": sref, "mech": mech, "key": keyfor("sign", kk, keys), "ref": True})
        ops.append({"_s": sref, "ep": e, "f": "C_Sign", "s": sref, "in": data.hex(), "outcap": 600, "save": src_name, "ref": True})
    ops_ref_first = list(ops); ops = []
    # ---- perturbation: the ciphertext / signature handed to the operation under test is damaged (cut short, or one bit flipped): whatever the terminal
    # call answers, an operation that FAILED is gone afterwards (statement: "an operation that finished or failed is gone")
    damage = {}
    if fam in ("dec", "verify") and r.random() < 0.4:
        x = r.random()
        if shape in ("pad", "aead") and r.random() < 0.5: x = 0.9      # right length, wrong content: padding / tag check fails at the very end of the operation
        if x < 0.6: damage["trunc"] = r.choice([0, 1, 5, 12, 15, 16, 17, 31, 32])
        if x >= 0.4: damage["flip"] = r.randrange(8 * 4096)
    def SRC(**kw):
        d = {"from": src_name}; d.update(damage); d.update(kw); return d
    initop = {"f": fi, "s": s, "mech": mech, "role": "init"}
    if key: initop["key"] = key
    use_multi = multi and r.random() < 0.65
    # ---- perturbation: continuation before Init
    if r.random() < 0.35:
        E(cont_op(r, fam, s, data, src_name, "before"))
    E(dict(initop))
    if r.random() < 0.45:
        # a foreign *Init (any family) while active
        f2 = r.choice(["enc", "dec", "sign", "verify", "digest", "find"])
        if f2 == "find": E({"f": "C_FindObjectsInit", "s": s, "tmpl": [], "role": "foreign_init"})
        elif f2 == "digest": E({"f": "C_DigestInit", "s": s, "mech": mechs.simple(K.CKM_SHA256), "role": "foreign_init"})
        else: E({"f": FN[f2][0], "s": s, "mech": mechs.simple(K.CKM_AES_ECB) if f2 in ("enc", "dec") else mechs.simple(K.CKM_AES_CMAC), "key": keys["aes"], "role": "foreign_init"})
    if r.random() < 0.3:
        # a continuation call of ANOTHER family while this one is active
        f2 = r.choice([x for x in ("enc", "dec", "sign", "digest") if x != fam and not (fam == "verify" and x == "sign")])
        E(cont_op(r, f2, s, objs.rnd(r, 16), None, "foreign"))
    outname = "out%d" % e
    def with_probe(op, lenname):
        """optionally precede op by a size query and/or a too-small attempt, then issue it with exactly the reported length"""
        x = r.random()
        if "outcap" not in op: E(op); return
        if x < 0.35:
            q = dict(op); q["outcap"] = None; q["savelen"] = lenname; q["probe"] = "query"; q.pop("append", None); q.pop("save", None); E(q)
            if r.random() < 0.5:
                q2 = dict(op); q2["outcap"] = {"len": lenname, "plus": -1}; q2["probe"] = "small"; q2["savelen"] = lenname; q2.pop("append", None); q2.pop("save", None); E(q2)
            op = dict(op); op["outcap"] = {"len": lenname, "plus": r.choice([0, 0, 0, 1, 16])}; op["probe"] = "retry"
        elif x < 0.55:
            q = dict(op); q["outcap"] = r.choice([0, 1, 7, 15]); q["savelen"] = lenname; q["probe"] = "small"; q.pop("append", None); q.pop("save", None); E(q)
            op = dict(op); op["outcap"] = {"len": lenname, "plus": r.choice([0, 0, 1])}; op["probe"] = "retry"
        E(op)
    if use_multi:
        # chunks
        chunks = []; off = 0
        total_in = n if fam not in ("dec",) else None
        if fam == "dec":
            # ciphertext length is not known when the plan is written: feed it in slices of the saved blob
            sizes = [r.choice([0, 1, 15, 16, 17, 32, 40]) for _ in range(r.randint(1, 4))]
            o2 = 0
            for i, sz in enumerate(sizes):
                last = i == len(sizes) - 1
                chunks.append(SRC(off=o2, **({} if last else {"n": sz}))); o2 += sz
        else:
            while off < n or not chunks:
                sz = r.choice([0, 1, 15, 16, 17, 32, 33]) if n else 0
                sz = min(sz, n - off) if n else 0
                if sz == 0 and off < n and r.random() < 0.8: sz = min(16, n - off)
                chunks.append(data[off:off + sz].hex()); off += sz
                if n == 0: break
        for i, ch in enumerate(chunks):
            op = {"f": fu, "s": s, "in": ch, "role": "update"}
            if fam in ("enc", "dec"): op["outcap"] = 400; op["append"] = outname
            with_probe(op, "l%d_%d" % (e, i))
        if fam == "verify": E({"f": ff, "s": s, "sig": SRC(), "role": "final"})
        else:
            op = {"f": ff, "s": s, "outcap": 700, "role": "final"}
            if fam in ("enc", "dec"): op["append"] = outname
            else: op["save"] = outname
            with_probe(op, "lf%d" % e)
    else:
        if fam == "verify": E({"f": fs, "s": s, "in": data.hex(), "sig": SRC(), "role": "single"})
        else:
            op = {"f": fs, "s": s, "in": data.hex() if fam != "dec" else SRC(), "outcap": 700, "role": "single", "save": outname}
            with_probe(op, "ls%d" % e)
    # ---- continuation after completion
    if r.random() < 0.5 or damage:
        E(cont_op(r, fam, s, data, src_name, "after"))
        if damage and r.random() < 0.5: E(cont_op(r, fam, s, data, src_name, "after"))
    # reference single-part computation of the same bytes (deterministic mechanisms)
    refops = []
    if fam in ("enc", "sign", "digest") and shape not in ("asym_rand",):
        io = {"_s": sref, "ep": e, "f": fi, "s": sref, "mech": mech, "ref": True}
        if key: io["key"] = key
        refops.append(io)
        refops.append({"_s": sref, "ep": e, "f": fs, "s": sref, "in": data.hex(), "outcap": n + 700, "ref": True, "refresult": True})
    for op in ops:
        op.setdefault("fam", fam); op["mechname"] = name; op.setdefault("plain", data.hex())
        if damage: op["damaged"] = True
    return ops_ref_first, ops, refops

def cont_op(r, fam, s, data, src_name, why):
    fi, fs, fu, ff = FN[fam]
    which = r.choice(["update", "final", "single"])
    if fam == "verify":
        sig = {"from": src_name} if src_name else bytes(32).hex()
        if which == "update": return {"f": fu, "s": s, "in": data[:16].hex(), "role": "cont_" + why, "fam": fam}
        if which == "final": return {"f": ff, "s": s, "sig": sig, "role": "cont_" + why, "fam": fam}
        return {"f": fs, "s": s, "in": data.hex(), "sig": sig, "role": "cont_" + why, "fam": fam}
    if which == "update":
        op = {"f": fu, "s": s, "in": data[:16].hex(), "role": "cont_" + why, "fam": fam}
        if fam in ("enc", "dec"): op["outcap"] = r.choice([None, 64])
        return op
    if which == "final": return {"f": ff, "s": s, "outcap": r.choice([None, 0, 64, 600]), "role": "cont_" + why, "fam": fam}
    return {"f": fs, "s": s, "in": data[:16].hex(), "outcap": r.choice([None, 0, 64, 600]), "role": "cont_" + why, "fam": fam}

def _v(cls, msg, **kw):
    d = {"class": cls, "msg": msg}; d.update(kw); return d

class Act:
    def __init__(self, fam, mechname, bs, tag, fixed, shape):
        self.fam = fam; self.mech = mechname; self.bs = bs; self.tag = tag; self.fixed = fixed; self.shape = shape
        self.fed = 0; self.out = 0; self.outbytes = b""; self.updates = 0; self.survived_foreign = False; self.ep = None
        self.perturbed = False     # a too-small probe was answered CKR_OK (its small buffer sufficed): the bytes were consumed, the planned retry feeds them again

def check(plan, r):
    viols = []; cov = set(); stats = {}
    def st(k, n=1): stats[k] = stats.get(k, 0) + n
    if plan.get("nsessions", 1) > 1: st("two_sessions_interleaved")
    table = {m[0]: m for m in MECHS(__import__("random").Random(0))}
    active = {}      # session ref -> Act
    pend_len = {}    # (session, savelen name) -> reported L awaiting the retry
    results = {}     # ep -> bytes (completed multi/single result in the session under test)
    refres = {}      # ep -> bytes (reference)
    lastdone = {}    # session -> "done" | "error"
    for tid, k, op, ret in hist.walk(plan, r):
        f = hist.opname(op); rv = ret.get("rv")
        if f not in FAM_OF: continue
        fam, kind = FAM_OF[f]; s = op.get("s")
        if op.get("ref"):
            if op.get("refresult") and rv == 0 and "out" in ret: refres[op["ep"]] = bytes.fromhex(ret["out"])
            continue
        a = active.get(s)
        role = op.get("role", "")
        inlen = ret.get("inlen") if "in" in op else None
        cap = ret.get("cap", op.get("outcap") if not isinstance(op.get("outcap"), dict) else None)
        hascap = "outcap" in op
        bufc = "n/a" if not hascap else "null" if op["outcap"] is None else op.get("probe") or ("zero" if cap == 0 else "big")
        cov.add("%s|%s|%s|%s|%s|%s" % (op.get("mechname", "?"), f, role, bufc, a.fam if a else None, K.rvname(rv)))
        # ---- canary: never more bytes than announced or reported
        if hascap and op["outcap"] is not None:
            st("canary_checked")
            t_ = ret.get("touched", 0); L = ret.get("len")
            if cap is not None and t_ > cap:
                viols.append(_v("C12.overrun", "%s wrote %d bytes into a buffer announced as %d" % (f, t_, cap), call=f, op=k, mech=op.get("mechname")))
            if rv == 0 and L is not None and t_ > L:
                viols.append(_v("C12.wrote_more_than_reported", "%s reports %d bytes but wrote %d" % (f, L, t_), call=f, op=k, mech=op.get("mechname")))
            if rv == K.CKR_BUFFER_TOO_SMALL and t_ > 0:
                viols.append(_v("C12.wrote_on_too_small", "%s answered CKR_BUFFER_TOO_SMALL but wrote %d bytes" % (f, t_), call=f, op=k, mech=op.get("mechname")))
        # ---- the automaton
        if kind == "init":
            if a is not None:
                st("op_active_refused")
                if rv != K.CKR_OPERATION_ACTIVE:
                    viols.append(_v("C12.second_init", "%s while a %s operation is active in the session returned %s instead of CKR_OPERATION_ACTIVE" % (f, a.fam, K.rvname(rv)), call=f, op=k, active=a.fam, rv=K.rvname(rv)))
                    if rv == 0:
                        active[s] = new_act(op, fam, table)
                else: a.survived_foreign = True
            elif rv == 0:
                active[s] = new_act(op, fam, table); active[s].ep = op.get("ep")
            continue
        # continuation
        if a is None or a.fam != fam:
            key = "not_initialized_before" if role == "cont_before" else "foreign_continuation" if role == "cont_foreign" else "not_initialized_after_error" if lastdone.get(s) == "error" else "not_initialized_after_done"
            st(key)
            if rv != K.CKR_OPERATION_NOT_INITIALIZED:
                viols.append(_v("C12.not_initialized", "%s without an active %s operation (%s) returned %s instead of CKR_OPERATION_NOT_INITIALIZED" % (f, fam, "active: " + a.fam if a else "none active, last one " + str(lastdone.get(s)), K.rvname(rv)), call=f, op=k, state=key, rv=K.rvname(rv)))
                if rv == 0 and "out" in ret and ret["out"]:
                    pass
            continue
        # a call of the active operation
        L = ret.get("len")
        if L is not None and L < 0: L += 1 << 64
        size_query = hascap and op["outcap"] is None
        if size_query: st("size_query")
        if rv == K.CKR_BUFFER_TOO_SMALL: st("too_small")
        # length bounds
        if hascap and rv in (0, K.CKR_BUFFER_TOO_SMALL) and L is not None:
            st("length_bounds_checked")
            il = inlen if inlen is not None else (None)
            if il is None and isinstance(op.get("in"), dict): il = None
            if a.fixed is not None and a.shape not in ("asym_rand",) or a.shape == "asym_rand":
                fixed = a.fixed
                if fixed is not None and kind in ("final", "single") and a.fam in ("sign", "digest") and L > fixed:
                    viols.append(_v("C12.length_too_large", "%s (%s) reports %d bytes; the mechanism's fixed size is %d" % (f, a.mech, L, fixed), call=f, op=k, mech=a.mech, step=kind))
                if fixed is not None and a.fam in ("enc",) and a.shape == "asym_rand" and L > fixed:
                    viols.append(_v("C12.length_too_large", "%s (%s) reports %d bytes; the modulus size is %d" % (f, a.mech, L, fixed), call=f, op=k, mech=a.mech, step=kind))
            if a.fam in ("enc", "dec") and a.shape in ("block", "pad", "stream", "aead") and il is not None:
                buffered = max(a.fed - a.out, 0)
                bound = il + buffered + a.bs + a.tag
                if L > bound:
                    viols.append(_v("C12.length_too_large", "%s (%s) reports %d bytes for %d input bytes with %d buffered: more than input + buffered + one block + tag = %d" % (f, a.mech, L, il, buffered, bound), call=f, op=k, mech=a.mech, step=kind, huge=(L > 1 << 32)))
        if op.get("savelen") and rv in (0, K.CKR_BUFFER_TOO_SMALL) and (size_query or rv == K.CKR_BUFFER_TOO_SMALL): pend_len[(s, op["savelen"])] = L
        if op.get("probe") == "retry" and isinstance(op.get("outcap"), dict):
            Lp = pend_len.get((s, op["outcap"]["len"]))
            if Lp is not None and op["outcap"].get("plus", 0) >= 0:
                st("retry_exact_ok")
                if rv == K.CKR_BUFFER_TOO_SMALL:
                    viols.append(_v("C12.reported_length_insufficient", "%s (%s): a buffer of exactly the %d bytes the previous call reported is answered CKR_BUFFER_TOO_SMALL (now wants %s)" % (f, a.mech, Lp, L), call=f, op=k, mech=a.mech, step=kind))
        # state transition
        if rv == K.CKR_BUFFER_TOO_SMALL or (size_query and rv == 0):
            continue      # operation stays active and unchanged
        if op.get("probe") == "small" and rv == 0:
            a.perturbed = True
            for key_ in [x for x in pend_len if x[0] == s]: pend_len.pop(key_)
        if rv == 0:
            if kind == "update":
                a.updates += 1
                if inlen is not None: a.fed += inlen
                if "out" in ret: a.out += len(ret["out"]) // 2; a.outbytes += bytes.fromhex(ret["out"])
            else:
                if "out" in ret: a.outbytes += bytes.fromhex(ret["out"])
                results[a.ep] = (a, a.outbytes, op)
                if a.survived_foreign: st("first_op_survives_foreign_init")
                if a.fam == "verify": st("verify_ok")
                active.pop(s, None); lastdone[s] = "done"
        else:
            active.pop(s, None); lastdone[s] = "error"
            if getattr(a, "damaged", False): st("failed_on_damaged_input")
            if a.fam == "verify" and role in ("final", "single") and not a.perturbed:
                viols.append(_v("C12.result_wrong", "verification of a signature made by the same token with the same key and data failed with %s%s" % (K.rvname(rv), " after a refused foreign *Init" if a.survived_foreign else ""), call=f, op=k, mech=a.mech))
    # ---- completed results equal the single-part result of the same bytes
    for ep, (a, outb, op) in results.items():
        if a.perturbed: continue
        if a.fam in ("enc", "sign", "digest") and ep in refres:
            st("multipart_equals_single")
            if outb != refres[ep]:
                viols.append(_v("C12.result_wrong", "%s (%s, %d update calls%s): the completed operation returned %s..., the single-part call over the same bytes in another session %s..." % (a.fam, a.mech, a.updates, ", a foreign *Init was refused in between" if a.survived_foreign else "", outb.hex()[:24], refres[ep].hex()[:24]), call=hist.opname(op), mech=a.mech))
        if a.fam == "dec" and a.shape != "asym_rand" or a.fam == "dec":
            st("decrypt_roundtrip")
            if outb != bytes.fromhex(op.get("plain", "")):
                viols.append(_v("C12.result_wrong", "decrypt (%s, %d update calls): the plaintext differs from what the helper session encrypted" % (a.mech, a.updates), call=hist.opname(op), mech=a.mech))
    r.aux["c12"] = (cov, stats)
    seen = set(); out = []
    for v in viols:
        key = (v["class"], v.get("call"), v.get("mech"), v.get("state"))
        if key in seen: continue
        seen.add(key); out.append(v)
    return out[:6]

def new_act(op, fam, table):
    m = table.get(op.get("mechname"))
    if m is None: return Act(fam, op.get("mechname", "?"), 16, 0, None, "?")
    name, fams, kk, mech, bs, shape, tag, multi, fixed = m
    a = Act(fam, name, bs, tag, fixed, shape)
    if op.get("damaged"): a.perturbed = True; a.damaged = True     # results of an operation fed with damaged input are not compared (C10's business); its life cycle is
    return a

def cover(plan, r):
    cov, stats = r.aux.get("c12", (set(), {}))
    return {"keys": sorted(cov), "nontrivial": stats.get("length_bounds_checked", 0) + stats.get("op_active_refused", 0) + stats.get("not_initialized_after_done", 0) > 0, "stats": stats}

TECHNIQUE = "deterministic simulation: seeded interleavings of operation calls in several sessions judged by a per-session automaton (active family, bytes fed/returned), canary-filled exact-size buffers under ASan"
CLAIM = ("Seeded exploration of call interleavings: Init / single-part / Update / Final / size-query / too-small-buffer calls of all operation families in 1-3 sessions, with foreign calls thrown in, are executed by the real "
         "library; a per-session automaton decides for each call whether the statement prescribes CKR_OPERATION_ACTIVE or CKR_OPERATION_NOT_INITIALIZED, that a size query / CKR_BUFFER_TOO_SMALL leaves the operation "
         "usable, that the reported length is sufficient (a retry with exactly that size succeeds) and within the statement's bound, and that no byte lands beyond the announced or reported size; completed results are "
         "compared with the single-part result of the same bytes in another session. Concurrent sessions are C18's. Evidence, not proof.")
NOTE = "Trusted: the per-session automaton; mechanism shapes (block size, tag, fixed sizes) of the table in this file. Calls PKCS#11 leaves open (e.g. C_EncryptUpdate on an RSA operation) are not generated."
