"""C14 - token initialisation, re-initialisation and isolation between tokens (DESIGN 4, C14)."""
import p11const as K
from p11const import A_bool, A_ulong, A_bytes
from workload import OW
from gen import RW, RO
from model import World, ref_of_label
import hist, objs

LEVEL = "exploration"
QUICK_RUNS = 1000
QUICK_BUDGET_S = 85
THOROUGH_RUNS = 10 ** 7
RULE = ("seeded histories on 2-3 tokens: C_InitToken on the free slot, re-initialisation with right/wrong SO PIN and with/without open sessions, object, session, login and PIN "
        "operations on every token, external removal of a token directory between restarts, restarts. After every call all session handles are read out; periodically and at the end every "
        "token is read out completely (objects with label/value, both PINs by login, flags, label, serial, slot id) and compared with the reference model, which an operation on token A "
        "never changes for token B. Every fifth plan runs on the SQLite object store (real SQLite over the simulated disk). Distinct+non-trivial: (operation on A, number of other tokens, what the other tokens held, outcome).")
PROBES = ["fresh_init_checked", "reinit_ok_checked", "reinit_wrong_pin", "reinit_with_session", "other_token_readout", "other_token_pins_verified", "restart_tokens_checked", "slot_id_formula", "new_free_slot", "token_removed_externally", "sessions_other_token_checked", "reinit_old_user_pin_probed", "db_backend_runs"]
DEATH_IS_VIOLATION = ()

W = {"open": 8, "close": 5, "closeall": 1, "login": 8, "logout": 6, "create": 18, "destroy": 5, "copy": 3, "setlabel": 3, "restart": 2, "reinit": 6, "newtoken": 2, "setpin": 4, "fullcheck": 6, "rmtoken": 1}

class GW(OW):
    def s_reinit(self, tid=0, pid=1):
        r = self.r; t = r.choice(self.toks()); tk = self.w.toks[t]
        live = self.live_sessions(pid, t)
        if live and r.random() < 0.7:
            for s in live: self.emit({"f": "C_CloseSession", "s": s.ref}, tid)
            live = []
        pin = tk.so_pin if r.random() < 0.75 else self.near_pin(tk.so_pin)
        ok = (pin == tk.so_pin) and not live
        old_user = tk.user_pin
        self.emit({"f": "C_InitToken", "slot": t, "pin": pin.hex(), "label": t + r.choice(["", "-b", "-reinit"]), "out": t}, tid, ok=ok)
        self.emit({"f": "C_GetTokenInfo", "slot": t}, tid)
        if ok and old_user is not None:
            # the re-initialised token has no user PIN any more - also in THIS process, which still holds the old token state in memory
            s = self.new_sess()
            self.emit({"f": "C_OpenSession", "slot": t, "flags": RW, "out": s, "chk": True}, tid)
            self.emit({"f": "C_Login", "s": s, "user": K.CKU_USER, "pin": old_user.hex(), "chk": True, "reinit_probe": True}, tid)
            self.emit({"f": "C_CloseSession", "s": s, "chk": True}, tid)
        return True

    def s_newtoken(self, tid=0, pid=1):
        if len(self.toks()) >= 3: return False
        so = self.pin(); up = self.pin()
        t = self.setup_token(tid, so_pin=so, upin=up, user_pin=self.r.random() < 0.8)
        self.pins[t] = [so, up]
        return True

    def s_setpin(self, tid=0, pid=1):
        r = self.r
        live = [s for s in self.live_sessions(pid) if s.rw]
        if not live: return False
        s = r.choice(live); tk = self.w.toks[s.tok]; st = self.P(pid).login.get(s.tok)
        cur = tk.so_pin if st == "S" else tk.user_pin
        if cur is None: return False
        self.emit({"f": "C_SetPIN", "s": s.ref, "old": cur.hex(), "new": self.pin().hex()}, tid)
        return True

    def s_rmtoken(self, tid=0, pid=1):
        if len(self.toks()) < 2: return False
        t = self.r.choice(self.toks())
        self.emit({"act": "stop"}, tid)
        self.emit({"act": "rmtoken", "token": t}, tid, ret={"done": True})
        self.pins.pop(t, None)
        self.emit({"act": "start"}, tid)
        return True

    def s_fullcheck(self, tid=0, pid=1, pins=True):
        """read every token out completely (does not change the model state in the end)"""
        for t in self.toks():
            tk = self.w.toks[t]
            if self.P(pid).login.get(t) == "S":
                continue
            s = self.new_sess()
            self.emit({"f": "C_OpenSession", "slot": t, "flags": RW, "out": s, "chk": True}, tid)
            was = self.P(pid).login.get(t)
            if was is None and tk.user_pin is not None:
                self.emit({"f": "C_Login", "s": s, "user": K.CKU_USER, "pin": tk.user_pin.hex(), "chk": True}, tid)
            self.emit({"act": "readout", "s": s, "tmpl": [], "types": [K.CKA_LABEL, K.CKA_VALUE, K.CKA_CLASS, K.CKA_TOKEN, K.CKA_PRIVATE, K.CKA_ID], "chk": True, "full": True}, tid)
            if was is None and tk.user_pin is not None:
                self.emit({"f": "C_Logout", "s": s, "chk": True}, tid)
                if pins and not any(not z.rw for z in self.w.sessions_on(pid, t)):
                    self.emit({"f": "C_Login", "s": s, "user": K.CKU_SO, "pin": tk.so_pin.hex(), "chk": True, "pincheck": True}, tid)
                    self.emit({"f": "C_Logout", "s": s, "chk": True}, tid)
            self.emit({"f": "C_GetTokenInfo", "slot": t, "chk": True}, tid)
            self.emit({"f": "C_CloseSession", "s": s, "chk": True}, tid)
        return True

def gen(seed, tier, index):
    r0 = __import__("random").Random(seed ^ 77)
    g = GW(seed, "C14", ntok=r0.choice([2, 2, 2, 3]))
    r = g.r; g.max_objs = 12
    g.kinds = ["data", "aes", "cert", "rsa_pub", "generic", "ec_priv"]
    dbmode = (index % 5 == 4)
    if dbmode:
        # configuration stratum: the SQLite object store, on the simulated disk through the SQLite VFS seam (DESIGN 10.8)
        g.knobs.setdefault("conf", {})["objectstore.backend"] = "db"
    junk = None
    if index % 4 == 1:
        # entries in the tokens directory that are NOT usable tokens (lost+found, a directory left by a killed C_InitToken or by another user): they must be
        # skipped without costing a real token its place - wherever they come in the directory listing (the readdir order is a knob of the run)
        junk = r.sample(["lost+found", "00000000-0000-0000-0000-000000000000", "ffffffff-ffff-ffff-ffff-ffffffffffff", ".tmp", "7fffffff-dead-beef-0000-000000000000"], r.randint(1, 2))
        g.task(0, 1)
        if r.random() < 0.5:
            for jn in junk: g.emit({"act": "corrupt", "path": "/sim/tokens/" + jn, "how": {"k": "mkdir"}})
            junk = None
    g.begin()
    if junk:
        for jn in junk: g.emit({"act": "corrupt", "path": "/sim/tokens/" + jn, "how": {"k": "mkdir"}})
    def probe(tid, pid):
        g.emit({"act": "probe_handles", "via": []}, tid)
    g.after_each = probe
    for t in g.toks():
        g.s_open(tok=t, rw=True)
        if r.random() < 0.7: g.s_login(user=K.CKU_USER, tok=t)
    for _ in range(r.choice([2, 4, 6])): g.s_create()
    n = r.choice([6, 10, 16, 24]) if tier == "quick" else r.choice([10, 20, 40])
    Wd = dict(W)
    if dbmode: Wd.pop("rmtoken", None)       # removing a token directory behind the library's back is an action of the simulated disk only
    for _ in range(n):
        g.step(Wd)
    # final: everything is closed, then a full check, a restart and a full check again
    for t in g.toks(): g.emit({"f": "C_CloseAllSessions", "slot": t})
    g.s_fullcheck()
    g.emit({"act": "restart"})
    g.s_fullcheck()
    return g.plan()

def _v(cls, msg, **kw):
    d = {"class": cls, "msg": msg}; d.update(kw); return d

def check(plan, r):
    viols = []; cov = set(); stats = {}
    def st(k, n=1): stats[k] = stats.get(k, 0) + n
    w = World(); pids = hist.pid_track(plan)
    if plan["knobs"].get("conf", {}).get("objectstore.backend") == "db": st("db_backend_runs")
    lastop = ("", None, None)  # (name, token it worked on, op index)
    def tok_of(pid, op):
        if "slot" in op and isinstance(op["slot"], str): return op["slot"]
        s = w.sess(pid, op.get("s")) if "s" in op else None
        return s.tok if s else None
    for tid, k, op, ret in hist.walk(plan, r):
        pid = pids[tid][k]; P = w.proc(pid)
        f = hist.opname(op); rv = ret.get("rv"); ok = rv == 0
        s = w.sess(pid, op.get("s")) if "s" in op else None
        if not op.get("chk") and f != "@probe_handles":
            lastop = (f, tok_of(pid, op), k)
        others = lambda t: [x for x in w.toks if x != t]
        if f == "C_InitToken":
            t = op.get("slot")
            if t == "FREE" or t not in w.toks:
                if not ok and not ret.get("unres"):
                    viols.append(_v("C14.fresh_init_failed", "C_InitToken on the free slot returned %s" % K.rvname(rv), call=f, op=k))
                cov.add("init_fresh|others%d|%s" % (len(w.toks), ok))
                st("fresh_init_checked")
            else:
                tk = w.toks[t]; pin = bytes.fromhex(op["pin"]); have = bool(w.sessions_on(pid, t))
                expect = pin == tk.so_pin and not have
                cov.add("reinit|%s|sess%d|others%d|objs%d|%s" % ("right" if pin == tk.so_pin else "wrong", have, len(w.toks) - 1, min(2, sum(1 for o in w.objs.values() if o.alive and o.tok == t)), ok))
                if pin != tk.so_pin: st("reinit_wrong_pin")
                if have: st("reinit_with_session")
                if ok and not expect:
                    viols.append(_v("C14.reinit_accepted", "re-initialisation succeeded with %s" % ("a wrong SO PIN" if pin != tk.so_pin else "open sessions"), call=f, op=k, wrong_pin=(pin != tk.so_pin), sessions=have))
                if not ok and expect:
                    viols.append(_v("C14.reinit_refused", "re-initialisation with the correct SO PIN and no sessions returned %s" % K.rvname(rv), call=f, op=k))
                if ok: st("reinit_ok_checked")
        if op.get("reinit_probe"):
            st("reinit_old_user_pin_probed")
            if rv != K.CKR_USER_PIN_NOT_INITIALIZED:
                viols.append(_v("C14.reinit_kept_user_pin", "C_Login(CKU_USER, the user PIN from before the re-initialisation) right after a successful C_InitToken returned %s, expected CKR_USER_PIN_NOT_INITIALIZED" % K.rvname(rv), call="C_Login", op=k))
                if ok: continue
        w.apply(pid, op, ret)
        # --- observations
        if f == "@slots" or (f in ("@start", "@restart") and ok):
            scan = ret if f == "@slots" else ret.get("scan", {})
            slots = scan.get("slots", [])
            inited = [x for x in slots if x.get("rv") == 0 and x["flags"] & K.CKF_TOKEN_INITIALIZED]
            free = [x for x in slots if x.get("rv") == 0 and not x["flags"] & K.CKF_TOKEN_INITIALIZED]
            if len(free) != 1:
                viols.append(_v("C14.free_slot", "%d uninitialised slots listed after %s (exactly one expected)" % (len(free), lastop[0]), call="C_GetSlotList", op=k, n=len(free)))
            else: st("new_free_slot")
            seen = {}
            for x in inited:
                ref = ref_of_label(bytes.fromhex(x["label"]))
                seen.setdefault(ref, []).append(x)
            for t, tk in w.toks.items():
                st("restart_tokens_checked")
                xs = seen.get(t, [])
                if len(xs) != 1:
                    viols.append(_v("C14.token_missing" if not xs else "C14.token_duplicated", "token %s is listed %d times after %s" % (t, len(xs), f), call="C_GetSlotList", op=k, after=lastop[0])); continue
                x = xs[0]
                if bytes.fromhex(x["label"]) != tk.label:
                    viols.append(_v("C14.label", "token %s has label %r, expected %r" % (t, bytes.fromhex(x["label"]), tk.label), call="C_GetTokenInfo", op=k))
                if tk.serial and x["serial"] != tk.serial and tk.gen == getattr(tk, "_serial_gen", tk.gen):
                    viols.append(_v("C14.serial", "token %s changed its serial number from %s to %s" % (t, tk.serial, x["serial"]), call="C_GetTokenInfo", op=k))
                tk.serial = x["serial"]; tk._serial_gen = tk.gen
                if f in ("@start", "@restart"):
                    st("slot_id_formula")
                    try: want = int(x["serial"][-8:], 16) & 0x7FFFFFFF
                    except ValueError: want = None
                    if want is not None and x["slot"] != want:
                        viols.append(_v("C14.slot_id", "token %s (serial %s) sits in slot %d after a restart, its serial determines slot %d" % (t, x["serial"], x["slot"], want), call="C_GetSlotList", op=k))
                if bool(x["flags"] & K.CKF_USER_PIN_INITIALIZED) != (tk.user_pin is not None):
                    viols.append(_v("C14.userpin_flag", "token %s: CKF_USER_PIN_INITIALIZED=%s but the model says the user PIN %s (after %s on %s)" % (t, bool(x["flags"] & K.CKF_USER_PIN_INITIALIZED), "exists" if tk.user_pin is not None else "does not exist", lastop[0], lastop[1]), call="C_GetTokenInfo", op=k, after=lastop[0], same_token=(lastop[1] == t)))
            for ref in seen:
                if ref not in w.toks:
                    viols.append(_v("C14.ghost_token", "an initialised token labelled %s is listed that should not exist" % ref, call="C_GetSlotList", op=k))
        elif f == "C_GetTokenInfo" and ok and op.get("slot") in w.toks:
            tk = w.toks[op["slot"]]; info = ret["info"]
            if bytes.fromhex(info["label"]) != tk.label:
                viols.append(_v("C14.label", "token %s has label %r, expected %r (after %s on %s)" % (tk.ref, bytes.fromhex(info["label"]), tk.label, lastop[0], lastop[1]), call="C_GetTokenInfo", op=k, same_token=(lastop[1] == tk.ref)))
            if bool(info["flags"] & K.CKF_USER_PIN_INITIALIZED) != (tk.user_pin is not None):
                viols.append(_v("C14.userpin_flag", "token %s: CKF_USER_PIN_INITIALIZED=%s, model: user PIN %s (after %s on %s)" % (tk.ref, bool(info["flags"] & K.CKF_USER_PIN_INITIALIZED), "exists" if tk.user_pin is not None else "absent", lastop[0], lastop[1]), call="C_GetTokenInfo", op=k, after=lastop[0], same_token=(lastop[1] == tk.ref)))
        elif f == "C_Login" and op.get("chk") and not op.get("reinit_probe") and s is not None:
            st("other_token_pins_verified")
            if not ok:
                viols.append(_v("C14.pin_lost", "the %s PIN of token %s no longer logs in: %s (last operation: %s on %s)" % ("SO" if op["user"] == K.CKU_SO else "user", s.tok, K.rvname(rv), lastop[0], lastop[1]), call="C_Login", op=k, after=lastop[0], same_token=(lastop[1] == s.tok), user=op["user"]))
        elif f == "C_OpenSession" and op.get("chk") and not ok:
            viols.append(_v("C14.token_unusable", "C_OpenSession on token %s returned %s (last operation: %s on %s)" % (op.get("slot"), K.rvname(rv), lastop[0], lastop[1]), call=f, op=k, after=lastop[0]))
        elif f == "@readout" and op.get("full") and s is not None and ok:
            st("other_token_readout")
            exp = {o.ref: o for o in w.visible(pid, s.ref)}
            got = {}
            for e, o in zip(ret.get("ids", []), ret.get("objs", [])):
                if e.get("ref"): got[e["ref"]] = o["attrs"]
                else: viols.append(_v("C14.foreign_object", "token %s returns an unidentifiable object %s" % (s.tok, e), call="C_FindObjects", op=k))
            cov.add("readout|toks%d|objs%d|last:%s|same%d" % (len(w.toks), min(len(exp), 3), lastop[0], lastop[1] == s.tok))
            for ref in exp:
                if ref not in got:
                    viols.append(_v("C14.object_lost", "object %s of token %s is gone (last operation: %s on token %s)" % (ref, s.tok, lastop[0], lastop[1]), call="C_FindObjects", op=k, after=lastop[0], same_token=(lastop[1] == s.tok)))
            for ref, at in got.items():
                if ref not in exp:
                    o = w.objs.get(ref)
                    why = "unknown" if o is None else "of token %s" % o.tok if o.tok != s.tok else "destroyed/re-initialised away" if not o.alive else "not visible"
                    viols.append(_v("C14.object_extra", "token %s returns object %s which is %s (last operation: %s on %s)" % (s.tok, ref, why, lastop[0], lastop[1]), call="C_FindObjects", op=k, after=lastop[0], why=why.split()[0]))
                    continue
                o = exp[ref]
                for t_, name in ((K.CKA_VALUE, "CKA_VALUE"), (K.CKA_ID, "CKA_ID")):
                    if t_ in o.attrs and not (o.is_key() and t_ == K.CKA_VALUE):
                        a = at.get(str(t_), {})
                        if a.get("v") != o.attrs[t_].hex():
                            viols.append(_v("C14.object_changed", "%s of object %s on token %s reads %s, expected %s (last operation: %s on %s)" % (name, ref, s.tok, str(a)[:80], o.attrs[t_].hex()[:40], lastop[0], lastop[1]), call="C_GetAttributeValue", op=k, after=lastop[0], same_token=(lastop[1] == s.tok)))
        elif f == "@probe_handles":
            seen = {e[0]: e for e in ret.get("sessions", [])}
            for sref, sess in P.sessions.items():
                e = seen.get(sess.handle)
                if e is None: continue
                other = lastop[1] is not None and lastop[1] != sess.tok
                if other: st("sessions_other_token_checked")
                exp = w.state_of(pid, sref)
                if e[1] != 0 or e[3] != exp:
                    viols.append(_v("C14.session_disturbed", "session %s on token %s answers rv=%s state=%s (model %s) after %s on token %s" % (sref, sess.tok, K.rvname(e[1]), K.name("CKS", e[3]), K.name("CKS", exp), lastop[0], lastop[1]), call="C_GetSessionInfo", op=k, after=lastop[0], same_token=not other))
        elif f == "@rmtoken" and ret.get("done"):
            st("token_removed_externally")
    r.aux["c14"] = (cov, stats)
    return viols[:5]

def cover(plan, r):
    cov, stats = r.aux.get("c14", (set(), {}))
    return {"keys": sorted(cov), "nontrivial": stats.get("other_token_readout", 0) > 1, "stats": stats}

TECHNIQUE = "deterministic simulation: seeded multi-token init/re-init/restart histories on the simulated disk, full per-token read-out against a reference model"
CLAIM = ("Seeded exploration: multi-token histories (fresh and repeated initialisation, wrong PIN, open sessions, external directory removal, restarts) run in the real library on the simulated disk; "
         "acceptance of every C_InitToken is predicted, and after every call the sessions of all tokens, and periodically every token's complete content (objects, values, both PINs, flags, label, serial, slot id), "
         "are compared with a model in which an operation on one token never changes another. Evidence, not proof. The softhsm2-util binaries are not run (directory removal stands in for --delete-token).")
NOTE = "Trusted: reference model; every fifth plan runs on the SQLite object store over the simulated disk (SQLite VFS seam); softhsm2-util itself is not run."
