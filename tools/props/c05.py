"""C05 - token objects persist durably, faithfully and in a stable on-disk format (DESIGN 4, C05)."""
import os, json
import p11const as K
from store import StoreW, StoreOracle, decode_read, fmt, PIN_TYPES
from model import World, ref_of_label
import hist, objs, decoder

LEVEL = "exploration"
QUICK_RUNS = 1200
QUICK_BUDGET_S = 90
THOROUGH_RUNS = 10 ** 7
RULE = ("seeded histories of create/copy/set/destroy/generate/generate-pair/unwrap/derive on 9 object kinds with every attribute kind of the store (booleans, integers, byte strings of "
        "length 0..300000 around stdio-buffer boundaries, mechanism sets, nested wrap/unwrap templates, dates), token and session objects, interleaved with C_Finalize/C_Initialize and a second "
        "library copy started cold on the same simulated disk; every new object is read back once (learn-then-pin) and every later read-out - other session, after restart, other copy - must return the "
        "supplied/pinned values; an independent decoder parses the simulated disk and must recover the same attribute maps (private values decrypted with the model's PIN). A quarter of the runs inject "
        "1-3 file-operation faults into mutating calls: a call that returned CKR_OK must have persisted its effect. Golden fixtures written by the pinned build (three of the file store, two of the SQLite store) are loaded as initial disks. Every third plan runs on the SQLite object store over the same simulated disk (faults then hit SQLite's own reads, writes, syncs, journal opens and deletions). "
        "Distinct+non-trivial: (operation, object kind, token/private, value-size class, where it was read back, stdio buffer knob).")
PROBES = ["readout_after_restart", "readout_in_cold_copy", "disk_decoded", "private_value_decrypted", "large_value", "nested_template", "mechanism_set", "destroyed_absent", "session_object_gone", "pinned_compared", "fixture_loaded", "fault_fired", "ok_under_fault_checked", "db_backend_runs", "db_disk_decoded"]
DEATH_IS_VIOLATION = ()

W = {"open": 4, "close": 2, "login": 5, "logout": 2, "create": 24, "gen": 6, "genpair": 2, "unwrap": 5, "derive": 5, "copy": 7, "setattr": 12, "destroy": 7, "restart": 4, "coldcopy": 2, "readout": 6, "disk": 3}

FIXDIR = os.path.join(os.path.dirname(os.path.dirname(os.path.dirname(os.path.abspath(__file__)))), "fixtures")

def fixtures():
    out = []
    if os.path.isdir(FIXDIR):
        for n in sorted(os.listdir(FIXDIR)):
            if n.endswith(".json"): out.append(os.path.join(FIXDIR, n))
    return out

def gen(seed, tier, index):
    fx = fixtures()
    if fx and index < 2 * len(fx):
        return gen_fixture(seed, fx[index % len(fx)], index)
    faulty = (index % 2 == 1)
    g = StoreW(seed, "C05", profile="fault" if faulty else "seq", big=(index % 5 == 0))
    r = g.r
    if faulty and index % 4 == 1:
        # values larger than the stdio buffer are written past it by one write(2) of their own: in half of the faulted plans a third of the values are
        # that large (but small enough to keep the run short), so that faults can land inside one value
        g.big = True; g.big_p = 0.35; g.big_sizes = [4097, 8193, 9000, 20000, 20000, 70000]
    if index % 6 in (4, 5):
        # configuration stratum: the SQLite object store, on the same simulated disk (SQLite VFS seam), with and without faults
        g.knobs["conf"]["objectstore.backend"] = "db"
    g.begin()
    for t in g.toks():
        g.s_open(tok=t, rw=True); g.s_login(user=K.CKU_USER, tok=t)
    n = r.choice([6, 10, 16, 24]) if tier == "quick" else r.choice([10, 20, 40])
    restarted = False
    for i in range(n):
        name = g.step(W)
        if name in ("restart", "coldcopy"):
            g.relogin_all()
    if faulty:
        add_faults(g)
    # final: restart, log in everywhere, read everything, decode the disk
    g.s_restart(); g.relogin_all(); g.s_disk()
    return g.plan()

MUTATING = ("C_CreateObject", "C_CopyObject", "C_SetAttributeValue", "C_DestroyObject", "C_GenerateKey", "C_GenerateKeyPair", "C_UnwrapKey", "C_DeriveKey")

def add_faults(g):
    """1-3 mutating calls get a fault; the position inside the call's I/O sequence is chosen by prepare() after a counting pass.
    Candidates are drawn group-uniformly over (call, mechanism, token?) so that rarely generated paths (each generate/derive/unwrap helper commits on
    its own) get the same share of faults as C_CreateObject."""
    r = g.r; ops = g.ops[0]
    groups = {}
    for i, op in enumerate(ops):
        if op.get("f") not in MUTATING: continue
        m = op.get("mech", {}).get("m") if isinstance(op.get("mech"), dict) else None
        tok = any(x[0] == K.CKA_TOKEN and len(x) > 2 and x[2] == "01" for x in (op.get("tmpl") or []) + (op.get("priv") or []) + (op.get("pub") or []))
        if op["f"] in ("C_CreateObject", "C_GenerateKey", "C_GenerateKeyPair", "C_UnwrapKey", "C_DeriveKey") and not tok: continue   # session objects do no file I/O
        groups.setdefault((op["f"], m), []).append(i)
    keys = sorted(groups, key=str); r.shuffle(keys)
    g.extra["fault_candidates"] = sorted(r.choice(groups[k]) for k in keys[: r.randint(1, 3)])

def prepare(plan, z):
    from gen import place_faults
    return place_faults(plan, z, plan["seed"])

def gen_fixture(seed, path, index):
    fx = json.load(open(path))
    ops = [{"act": "start"}]
    n = 0
    for t in fx["tokens"]:
        n += 1; s = "S%d" % n
        ops.append({"f": "C_OpenSession", "slot": t["ref"], "flags": K.CKF_RW_SESSION | K.CKF_SERIAL_SESSION, "out": s})
        ops.append({"f": "C_Login", "s": s, "user": K.CKU_SO, "pin": t["so_pin"], "fixture": "so"})
        ops.append({"f": "C_Logout", "s": s})
        if t.get("user_pin"):
            ops.append({"f": "C_Login", "s": s, "user": K.CKU_USER, "pin": t["user_pin"], "fixture": "user"})
        ops.append({"act": "readout", "s": s, "tmpl": [], "types": PIN_TYPES, "fixture": t["ref"]})
    ops.append({"act": "disk", "data": True})
    knobs = {"readdir": ["creation", "reverse", "name", "shuffle"][index % 4], "stdio_buf": [512, 4096, 8192, 65536][(index // 2) % 4], "proc_umask": "022", "policy": "call", "conf": {}}
    if fx.get("backend") == "db": knobs["conf"]["objectstore.backend"] = "db"
    return {"v": 1, "property": "C05", "seed": seed, "profile": "fixture", "knobs": knobs, "tasks": [{"pid": 1, "ops": ops}], "faults": [], "disk": {"files": fx["files"]}, "fixture": os.path.basename(path)}

def _v(cls, msg, **kw):
    d = {"class": cls, "msg": msg}; d.update(kw); return d

def sizeclass(n):
    return "0" if n == 0 else "<=16" if n <= 16 else "<=512" if n <= 512 else "<=4096" if n <= 4096 else "<=8192" if n <= 8192 else "<=65536" if n <= 65536 else "big"

def check(plan, r):
    if plan.get("profile") == "fixture":
        return check_fixture(plan, r)
    viols = []; cov = set(); stats = {}
    def st(k, n=1): stats[k] = stats.get(k, 0) + n
    w = World(); so = StoreOracle(); pids = hist.pid_track(plan)
    faulty = plan.get("profile") == "fault"
    where = "same"
    fault_ops = {}
    for e in r.hist:
        if e.get("e") == "fs" and e.get("fault"): fault_ops.setdefault(e.get("op"), []).append(e)
    suspect = set()   # objects touched by a call in which a fault fired and that returned an error: C09's business, not compared here
    okfault = set()
    kinds = {}
    for tid, k, op, ret in hist.walk(plan, r):
        pid = pids[tid][k]; P = w.proc(pid)
        f = hist.opname(op); rv = ret.get("rv"); ok = rv == 0
        s = w.sess(pid, op.get("s")) if "s" in op else None
        if f == "@restart": where = "restart"
        if f == "@start" and k > 0: where = "coldcopy"
        fired = k in fault_ops
        if fired: st("fault_fired")
        if f in MUTATING:
            refs = [x for x in ([op.get("o")] + (op.get("out") if isinstance(op.get("out"), list) else [op.get("out")])) if isinstance(x, str)]
            if fired and not ok: suspect.update(refs); suspect.add("*")
            if fired and ok: okfault.update(refs)
        w.apply(pid, op, ret)
        if ok and f in ("C_CreateObject", "C_GenerateKey", "C_UnwrapKey", "C_DeriveKey"):
            so.on_create(op["out"], op.get("tmpl"))
            v = [x for x in op.get("tmpl", []) if x[0] == K.CKA_VALUE]
            o = w.objs.get(op["out"])
            if o is not None:
                vl = len(v[0][2]) // 2 if v and v[0][1] == "x" else -1
                kinds[op["out"]] = "%s|tok%d|priv%d|%s" % (f, o.token, o.private, sizeclass(vl) if vl >= 0 else "nov")
                if vl > 65536: st("large_value")
                if any(x[1] == "t" for x in op.get("tmpl", [])): st("nested_template")
                if any(x[0] == K.CKA_ALLOWED_MECHANISMS for x in op.get("tmpl", [])): st("mechanism_set")
        elif ok and f == "C_GenerateKeyPair":
            so.on_create(op["out"][0], op.get("pub")); so.on_create(op["out"][1], op.get("priv"))
            for x in op["out"]:
                o = w.objs.get(x)
                if o is not None: kinds[x] = "genpair|tok%d|priv%d" % (o.token, o.private)
        elif ok and f == "C_CopyObject" and isinstance(op.get("o"), str):
            so.on_create(op["out"], op.get("tmpl"), src=op["o"])
            o = w.objs.get(op["out"])
            if o is not None: kinds[op["out"]] = "copy|tok%d|priv%d" % (o.token, o.private)
        elif ok and f == "C_SetAttributeValue" and isinstance(op.get("o"), str):
            so.on_set(op["o"], op.get("tmpl"))
        elif not ok and f == "C_SetAttributeValue" and isinstance(op.get("o"), str):
            # whether a REJECTED template left traces is C09's predicate, not C05's: those attributes are not compared any more
            so.unreadable.setdefault(op["o"], set()).update(x[0] for x in op.get("tmpl", []))
        elif f == "@readattrs" and op.get("pin") and isinstance(op.get("o"), str) and op["o"] in w.objs and w.objs[op["o"]].alive and op["o"] not in suspect:
            bad = so.pin(op["o"], ret.get("attrs", {}))
            for t_, exp, got in bad[:2]:
                viols.append(_v("C05.unfaithful", "%s of new object %s reads back %s, the template supplied %s" % (K.name("CKA", t_), op["o"], fmt(got), fmt(exp)), call="C_GetAttributeValue", op=k, attr=K.name("CKA", t_), where="creation"))
        elif f == "@readout" and s is not None and ok:
            exp = {o.ref: o for o in w.visible(pid, s.ref)}
            got = {}
            for e, oj in zip(ret.get("ids", []), ret.get("objs", [])):
                ref = e.get("ref") or P.h2obj.get(e["h"])
                if ref: got[ref] = oj["attrs"]
            if where == "restart": st("readout_after_restart")
            if where == "coldcopy": st("readout_in_cold_copy")
            for ref, o in exp.items():
                if ref in suspect: continue
                if ref in okfault: st("ok_under_fault_checked")
                if ref not in got:
                    viols.append(_v("C05.lost", "%s object %s (created by a call that returned CKR_OK%s) is not found [%s]" % ("token" if o.token else "session", ref, ", fault injected during that call" if ref in okfault else "", where),
                                    call="C_FindObjects", op=k, where=where, token=o.token, under_fault=ref in okfault, manifestation="ok_but_not_persisted" if ref in okfault else "absent"))
                    continue
                cov.add("%s|%s|buf%s" % (kinds.get(ref, "?"), where, plan["knobs"].get("stdio_buf")))
                st("pinned_compared")
                for t_, ev, gv in so.compare(ref, got[ref])[:2]:
                    viols.append(_v("C05.changed", "%s of object %s reads %s, expected %s [%s]%s" % (K.name("CKA", t_), ref, fmt(gv), fmt(ev), where, " (fault injected during the storing call, which returned CKR_OK)" if ref in okfault else ""),
                                    call="C_GetAttributeValue", op=k, where=where, attr=K.name("CKA", t_), under_fault=ref in okfault, manifestation="ok_but_not_persisted" if ref in okfault else "wrong_value"))
            for ref in got:
                if ref not in exp and ref not in suspect:
                    o = w.objs.get(ref)
                    if o is not None and not o.alive:
                        cls = "C05.resurrected" if o.token else "C05.session_object_survived"
                        viols.append(_v(cls, "%s object %s is found again although it was destroyed / its session ended [%s]" % ("token" if o.token else "session", ref, where), call="C_FindObjects", op=k, where=where))
            dead = [o for o in w.objs.values() if not o.alive and o.tok == s.tok]
            if any(o.token for o in dead): st("destroyed_absent")
            if any(not o.token for o in dead): st("session_object_gone")
        elif f == "@disk":
            viols += check_disk(ret.get("tree", {}), w, so, suspect, st, k, where)
    r.aux["c05"] = (cov, stats)
    tag_backend(plan, viols, fault_ops, st)
    return viols[:6]

READ_SIDE = ("read", "access", "fstat", "lock")
def tag_backend(plan, viols, fault_ops, st):
    """every violation names the object store it was seen on and whether a READ-side fault (read/access/fstat/lock below SQLite, or of an object file) had fired
    before it in the run - the known-finding signatures are written in these terms"""
    backend = plan["knobs"].get("conf", {}).get("objectstore.backend", "file")
    if backend == "db": st("db_backend_runs")
    rf = [k for k, evs in fault_ops.items() if k is not None and any(e.get("k") in READ_SIDE for e in evs)]
    first = min(rf) if rf else None
    for v in viols:
        v["backend"] = backend
        v["read_fault_before"] = bool(first is not None and isinstance(v.get("op"), int) and v["op"] >= first)

def check_disk(tree, w, so, suspect, st, k, where):
    """independent decoding of the simulated disk (format pin)"""
    viols = []
    toks = decoder.decode_tree(tree)
    st("disk_decoded")
    if any(getattr(td, "backend", None) == "db" for td in toks.values()): st("db_disk_decoded")
    seen_refs = {}
    for dname, td in toks.items():
        if td.label is None:
            if getattr(td, "token_error", None): viols.append(_v("C05.format", "token.object of %s does not parse: %s" % (dname, td.token_error), call="disk", op=k))
            continue
        tref = ref_of_label(td.label)
        tk = w.toks.get(tref)
        if tk is None: continue
        mk_so = decoder.unwrap_master_key(td.so_blob, tk.so_pin)
        mk_u = decoder.unwrap_master_key(td.user_blob, tk.user_pin) if tk.user_pin is not None else None
        if mk_so is None:
            viols.append(_v("C05.format", "the SO PIN blob of token %s cannot be opened by the independent decoder with the model's SO PIN" % tref, call="disk", op=k)); continue
        if tk.user_pin is not None and mk_u != mk_so:
            viols.append(_v("C05.format", "user PIN blob of token %s %s" % (tref, "cannot be opened with the model's user PIN" if mk_u is None else "unwraps a different master key than the SO blob"), call="disk", op=k))
        for fname, parsed in td.objects.items():
            if isinstance(parsed, Exception):
                if "*" in suspect: continue
                viols.append(_v("C05.format", "object file %s of token %s does not parse: %s" % (fname, tref, parsed), call="disk", op=k)); continue
            gen_, attrs = parsed
            view = decoder.object_view(attrs, mk_so)
            lab = view.get(K.CKA_LABEL)
            ref = ref_of_label(lab) if isinstance(lab, (bytes, bytearray)) else None
            if ref is None:
                if not attrs: continue
                if "*" in suspect: continue     # left-overs of a call that FAILED under an injected fault are C09's business
                viols.append(_v("C05.format", "object file %s of token %s carries no decodable harness label (%s)" % (fname, tref, fmt(lab)), call="disk", op=k)); continue
            seen_refs[ref] = fname
            if ref in suspect: continue
            o = w.objs.get(ref)
            if o is None: continue
            if not o.alive or not o.token:
                viols.append(_v("C05.resurrected", "file %s still holds object %s which was %s" % (fname, ref, "destroyed" if o.token else "a session object"), call="disk", op=k, manifestation="left_over_file")); continue
            if view.get(K.CKA_PRIVATE): st("private_value_decrypted")
            exp = so.exp.get(ref, {})
            for t_, ev in exp.items():
                if t_ not in view:
                    if t_ in (K.CKA_VALUE_LEN,): continue
                    viols.append(_v("C05.disk_mismatch", "object %s on disk lacks %s" % (ref, K.name("CKA", t_)), call="disk", op=k, attr=K.name("CKA", t_))); continue
                dv = view[t_]
                if isinstance(dv, bool): dv = b"\x01" if dv else b"\x00"
                elif isinstance(dv, int): dv = dv.to_bytes(8, "little")
                elif isinstance(dv, dict): dv = {a: (b"\x01" if v[1] is True else b"\x00" if v[1] is False else v[1].to_bytes(8, "little") if isinstance(v[1], int) else v[1]) for a, v in dv.items()}
                from store import same
                if not same(t_, ev, dv):
                    viols.append(_v("C05.disk_mismatch", "%s of object %s decodes from disk as %s, the API/model value is %s" % (K.name("CKA", t_), ref, fmt(dv), fmt(ev)), call="disk", op=k, attr=K.name("CKA", t_)))
    for o in w.objs.values():
        if o.alive and o.token and o.ref not in seen_refs and o.ref not in suspect and o.tok in w.toks:
            viols.append(_v("C05.lost", "token object %s has no file in the token directory [%s]" % (o.ref, where), call="disk", op=k, where=where, manifestation="absent"))
    return viols

def check_fixture(plan, r):
    viols = []; stats = {"fixture_loaded": 1}; cov = {"fixture|" + plan.get("fixture", "?") + "|" + str(plan["knobs"].get("readdir"))}
    fx = json.load(open(os.path.join(FIXDIR, plan["fixture"])))
    expect = {t["ref"]: t for t in fx["tokens"]}
    for tid, k, op, ret in hist.walk(plan, r):
        f = hist.opname(op); rv = ret.get("rv")
        if f == "C_OpenSession" and rv != 0:
            viols.append(_v("C05.fixture_token", "fixture %s: token %s cannot be opened: %s" % (plan["fixture"], op["slot"], K.rvname(rv)), call=f, op=k))
        if f == "C_Login" and op.get("fixture") and rv != 0:
            viols.append(_v("C05.fixture_pin", "fixture %s: the recorded %s PIN no longer logs in: %s" % (plan["fixture"], op["fixture"], K.rvname(rv)), call=f, op=k, user=op["fixture"]))
        if f == "@readout" and op.get("fixture"):
            t = expect[op["fixture"]]
            got = {}
            for e, oj in zip(ret.get("ids", []), ret.get("objs", [])):
                if e.get("ref"): got[e["ref"]] = oj["attrs"]
            for ref, attrs in t["objects"].items():
                if ref not in got:
                    viols.append(_v("C05.fixture_object", "fixture %s: object %s is not returned" % (plan["fixture"], ref), call="C_FindObjects", op=k)); continue
                stats["pinned_compared"] = stats.get("pinned_compared", 0) + 1
                for ts, rec in attrs.items():
                    a = got[ref].get(ts)
                    if decode_read(int(ts), a) != decode_read(int(ts), rec):
                        viols.append(_v("C05.fixture_value", "fixture %s: %s of %s reads %s, recorded %s" % (plan["fixture"], K.name("CKA", int(ts)), ref, fmt(decode_read(int(ts), a)), fmt(decode_read(int(ts), rec))), call="C_GetAttributeValue", op=k, attr=K.name("CKA", int(ts))))
            for ref in got:
                if ref not in t["objects"]:
                    viols.append(_v("C05.fixture_object", "fixture %s: unexpected object %s" % (plan["fixture"], ref), call="C_FindObjects", op=k))
    r.aux["c05"] = (cov, stats)
    return viols[:6]

def cover(plan, r):
    cov, stats = r.aux.get("c05", (set(), {}))
    return {"keys": sorted(cov), "nontrivial": stats.get("pinned_compared", 0) > 0, "stats": stats}

TECHNIQUE = "deterministic simulation with fault injection: seeded store histories over a simulated disk with restarts, a cold second library copy and injected file-operation errors; model + independent on-disk decoder as oracles"
CLAIM = ("Seeded exploration: the real library stores objects on the simulated disk (real glibc buffering, varied buffer sizes, readdir orders, short writes); every acknowledged creation, copy, change and destruction is "
         "checked after C_Finalize/C_Initialize and in a second library copy started cold, attribute by attribute; an independent decoder (own parser, S2K and AES via EVP) must read the same values from the raw "
         "disk, which pins the format together with golden fixtures written by the pinned build; with injected file-operation faults a call that answered CKR_OK must still have persisted its effect. Evidence, not proof.")
NOTE = "Trusted: reference model, the format specification in DESIGN 2.7 (implemented by tools/decoder.py), the simfs stub. Both object stores: a third of the generated plans run on the SQLite store, which reaches the simulated disk through a SQLite VFS (real SQLite above it; the independent decoder for that store is Python's sqlite3 module reading the raw database image plus own attribute-array parser).."
