"""C18 - thread safety with locking enabled (DESIGN 4, C18)."""
import copy
import p11const as K
from p11const import A_bool, A_ulong, A_bytes
from gen import G, RW, RO
from model import World, ref_of_label, tbool, tget
from store import decode_read, fmt, same, norm_supplied
import hist, objs, mechs
from props import c15

LEVEL = "exploration"
QUICK_RUNS = 900
QUICK_BUDGET_S = 100
THOROUGH_RUNS = 10 ** 7
SHRINK_BUDGET = 120
RULE = ("2-4 (thorough: up to 16) caller threads - real pthreads of which the simulator lets exactly one run - in ONE library instance initialised with locking (application mutex callbacks = simulator mutexes in 3/4 of "
        "the runs, CKF_OS_LOCKING_OK with pthread_mutex_* wrapped onto simulator mutexes in 1/4), each with its own session(s), 3-10 calls: open/close sessions, create/find/read/change/destroy own and shared token "
        "and session objects, digest/encrypt/sign operations, login/logout only in a dedicated stratum. Seeded schedules: switches at call boundaries, mutex callbacks and file operations with probability 0.05-0.5 "
        "('io'), or 1-30 forced pre-emptions at instrumented basic-block edges of the repository code placed after a counting pass ('edge'). Oracle: no crash/sanitizer report/exit/deadlock/step-budget overrun; "
        "handles issued as new pairwise distinct; interval semantics for searches and reads during the run; at quiescence objects = created - destroyed with every acknowledged change present, also after a restart; "
        "mutex discipline of the library as seen by the callbacks. Distinct+non-trivial: (locking mode, policy, stratum, distinct context-switch sequence).")
PROBES = ["runs_with_switches", "edge_preemptions", "mutex_blocked", "mutex_locks", "handles_checked", "quiescence_checked", "restart_checked", "overlapping_calls", "stratum_close_open", "stratum_logout_private", "stratum_create_search", "stratum_destroy_read", "stratum_same_object", "stratum_slots", "stratum_crypto", "stratum_session_objects", "stratum_last_close_login", "stratum_setpin_login", "login_state_after_own_login_checked", "parks_fired", "rejected_sets"]
DEATH_IS_VIOLATION = ("died.exit", "died.sanitizer", "died.signal", "died.hang", "died.deadlock")
READ_T = c15.READ_T

STRATA = ["mixed", "close_open", "logout_private", "create_search", "destroy_read", "same_object", "slots", "crypto", "session_objects", "last_close_login", "setpin_login"]

def gen(seed, tier, index):
    g = G(seed, "C18", profile="mthread"); r = g.r
    nth = r.choice([2, 2, 3, 3, 4]) if tier == "quick" else r.choice([2, 3, 4, 6, 8, 12, 16])
    stratum = STRATA[index % len(STRATA)]
    policy = ["io", "park", "edge"][index % 3]
    if stratum in ("last_close_login", "setpin_login"):
        # the window needs whole foreign calls inside one call: long pre-emptions in two runs out of three; two threads keep "the last session" frequent
        nth = 2; policy = "io" if index % 3 == 0 else "park"
    g.knobs["policy"] = policy
    g.knobs["switch_p"] = r.choice([0.05, 0.1, 0.2, 0.35, 0.5]) if policy == "io" else r.choice([0.0, 0.02, 0.1])
    g.knobs["short_io"] = False
    locking = "os" if index % 4 == 3 else "callbacks"
    for t in range(nth): g.task(t, 1)
    so = g.pin(); up = g.pin()
    g.emit({"act": "start", "locking": locking}, 0)
    tok = g.setup_token(0, so_pin=so, upin=up)
    tok2 = g.setup_token(0, so_pin=so, upin=up) if r.random() < 0.3 else None
    sess = {}
    for t in range(nth):
        s = g.new_sess(); sess[t] = s
        g.emit({"f": "C_OpenSession", "slot": tok if (tok2 is None or t % 2 == 0) else tok2, "flags": RW, "out": s}, 0)
    g.emit({"f": "C_Login", "s": sess[0], "user": K.CKU_USER, "pin": up.hex()}, 0)
    if tok2: g.emit({"f": "C_Login", "s": sess[1], "user": K.CKU_USER, "pin": up.hex()}, 0)
    # shared objects and keys exist once per token: a handle is only ever used through sessions of its own token
    def on_tok(t): return tok if (tok2 is None or t % 2 == 0) else tok2
    shared_of = {}; keyref_of = {}; hkey_of = {}
    for tk, s_ in [(tok, sess[0])] + ([(tok2, sess[1])] if tok2 else []):
        shared_of[tk] = []
        for _ in range(r.choice([1, 2])):
            ref = g.new_obj(); pv = (stratum == "logout_private") or r.random() < 0.3
            g.emit({"f": "C_CreateObject", "s": s_, "tmpl": c15.mk_key(ref, r, pv), "out": ref}, 0); shared_of[tk].append(ref)
        kr = g.new_obj()
        kt, _ = objs.make("aes", kr, r, token=True, private=False, flags={"sensitive": False, "extractable": True})
        g.emit({"f": "C_CreateObject", "s": s_, "tmpl": kt, "out": kr}, 0); keyref_of[tk] = kr
        hk = g.new_obj()
        ht, _ = objs.make("generic", hk, r, token=False, private=False, vlen=48)
        g.emit({"f": "C_CreateObject", "s": s_, "tmpl": ht, "out": hk}, 0); hkey_of[tk] = hk
    tok3 = g.setup_token(0, so_pin=so, upin=up) if stratum in ("last_close_login", "setpin_login") else None      # a token on which NO long-lived session exists
    s3 = {}
    if stratum == "setpin_login":
        for t in range(nth):
            s3[t] = g.new_sess(); g.emit({"f": "C_OpenSession", "slot": tok3, "flags": RW, "out": s3[t]}, 0)
    for t in range(nth): g.emit({"act": "barrier"}, t)
    own = {t: [] for t in range(nth)}
    def op_set(t, ref, attr):
        if attr == "label": tm = [A_bytes(K.CKA_LABEL, objs.label(ref, ":t%d" % t + "".join(r.choice("abcdef") for _ in range(r.randint(1, 5)))))]
        elif attr == "id": tm = [A_bytes(K.CKA_ID, objs.rnd(r, r.choice([2, 6, 12])))]
        elif attr == "date": tm = [A_bytes(K.CKA_START_DATE, ("20%02d0%d1%d" % (r.randrange(100), r.randint(1, 9), r.randint(0, 9))).encode())]
        else: tm = [A_bytes(K.CKA_END_DATE, ("21%02d0%d1%d" % (r.randrange(100), r.randint(1, 9), r.randint(0, 9))).encode())]
        g.emit({"f": "C_SetAttributeValue", "s": sess[t], "o": ref, "tmpl": tm}, t)
    def create_own(t, token=None):
        ref = g.new_obj(); token = (r.random() < 0.5) if token is None else token
        tm, _ = objs.make(r.choice(["aes", "generic", "data"]), ref, r, token=token, private=False, flags={"sensitive": False, "extractable": True})
        g.emit({"f": "C_CreateObject", "s": sess[t], "tmpl": tm, "out": ref}, t); own[t].append(ref)
        return ref
    def crypto(t):
        s = sess[t]; x = r.random(); keyref = keyref_of[on_tok(t)]; hkey = hkey_of[on_tok(t)]
        data = objs.rnd(r, r.choice([16, 32, 64]))
        if x < 0.4:
            g.emit({"f": "C_DigestInit", "s": s, "mech": mechs.simple(K.CKM_SHA256)}, t); g.emit({"f": "C_DigestUpdate", "s": s, "in": data.hex()}, t); g.emit({"f": "C_DigestFinal", "s": s, "outcap": 32, "expect": "digest", "data": data.hex()}, t)
        elif x < 0.75:
            g.emit({"f": "C_EncryptInit", "s": s, "mech": mechs.simple(K.CKM_AES_ECB), "key": keyref}, t); g.emit({"f": "C_Encrypt", "s": s, "in": data.hex(), "outcap": 64, "expect": "aes", "data": data.hex()}, t)
        else:
            g.emit({"f": "C_SignInit", "s": s, "mech": mechs.simple(K.CKM_SHA256_HMAC), "key": hkey}, t); g.emit({"f": "C_Sign", "s": s, "in": data.hex(), "outcap": 32, "expect": "hmac", "data": data.hex()}, t)
    for t in range(nth):
        n = r.choice([3, 5, 7, 10]) if tier == "quick" else r.choice([5, 8, 12])
        s = sess[t]; shared = shared_of[on_tok(t)]; keyref = keyref_of[on_tok(t)]
        for i in range(n):
            x = r.random()
            if stratum == "setpin_login" and x < 0.85:
                # C_SetPIN (old PIN = new PIN: the PIN stays what it is) keeps the login state of the token whatever it is; the other thread logs in and out.
                # After its OWN acknowledged C_Login (C_Logout) that thread must see the user (public) state until its own next call changes it - whatever
                # the schedule: only one thread logs in and out, and the other thread's calls are state-preserving
                if t != 1:
                    g.emit({"f": "C_SetPIN", "s": s3[t], "old": up.hex(), "new": up.hex(), "spl": True, "park_me": True}, t)
                else:
                    g.emit({"f": "C_Login", "s": s3[t], "user": K.CKU_USER, "pin": up.hex(), "spl": "login", "park_other": True}, t)
                    for _ in range(r.randint(1, 2)): g.emit({"f": "C_GetSessionInfo", "s": s3[t], "spl": "info_user"}, t)
                    g.emit({"f": "C_Logout", "s": s3[t], "spl": "logout"}, t)
                    for _ in range(r.randint(1, 2)): g.emit({"f": "C_GetSessionInfo", "s": s3[t], "spl": "info_public"}, t)
            elif stratum == "last_close_login" and x < 0.8:
                # closing the LAST session of a token (which logs the token out) || another thread opening a session there and logging in: once a thread's own
                # C_Login has returned CKR_OK, and while its own session stays open, nothing the other threads do here (they only open and close sessions, and a
                # close is "the last one" only if no other session exists) can log the token out again - whatever the schedule
                s3 = g.new_sess()
                if t != 1:      # exactly ONE thread logs in and out on this token (a second one's C_Logout would legitimately undo the first one's login)
                    g.emit({"f": "C_OpenSession", "slot": tok3, "flags": r.choice([RW, RO]), "out": s3, "lcl": True}, t)
                    g.emit({"f": "C_CloseSession", "s": s3, "lcl": "close_maybe_last"}, t)
                else:
                    g.emit({"f": "C_OpenSession", "slot": tok3, "flags": RW, "out": s3, "lcl": True}, t)
                    g.emit({"f": "C_Login", "s": s3, "user": K.CKU_USER, "pin": up.hex(), "lcl": "login"}, t)
                    for _ in range(r.randint(1, 3)): g.emit({"f": "C_GetSessionInfo", "s": s3, "lcl": "info"}, t)
                    if r.random() < 0.5:
                        ref = g.new_obj(); tm, _ = objs.make("data", ref, r, token=False, private=True)
                        g.emit({"f": "C_CreateObject", "s": s3, "tmpl": tm, "out": ref, "lcl": "private"}, t)
                    if r.random() < 0.4: g.emit({"f": "C_Logout", "s": s3, "lcl": True}, t)
                    g.emit({"f": "C_CloseSession", "s": s3, "lcl": True}, t)
            elif stratum == "close_open" and x < 0.7:
                # (a) closing the last session of a slot || opening one on it: thread t owns an extra slot-local session it opens and closes
                s2 = g.new_sess()
                g.emit({"f": "C_OpenSession", "slot": on_tok(t), "flags": r.choice([RW, RO]), "out": s2}, t)
                if r.random() < 0.5: g.emit({"f": "C_GetSessionInfo", "s": s2}, t)
                g.emit({"f": "C_CloseSession", "s": s2}, t)
            elif stratum == "logout_private" and x < 0.5:
                if t == 0:
                    g.emit({"f": "C_Logout", "s": s, "racy": True}, t); g.emit({"f": "C_Login", "s": s, "user": K.CKU_USER, "pin": up.hex(), "racy": True}, t)
                else:
                    g.emit({"act": "readattrs", "s": s, "o": r.choice(shared), "types": READ_T, "racy": True}, t)
            elif stratum == "create_search" and x < 0.8:
                if r.random() < 0.5: create_own(t, token=True)
                else: g.emit({"act": "find", "s": s, "tmpl": r.choice([[], [A_ulong(K.CKA_CLASS, K.CKO_SECRET_KEY)]]), "batches": r.choice([[], [1], [2]])}, t)
            elif stratum == "destroy_read" and x < 0.8:
                if own[t] and r.random() < 0.4: g.emit({"f": "C_DestroyObject", "s": s, "o": own[t].pop(r.randrange(len(own[t])))}, t)
                elif r.random() < 0.5: create_own(t)
                else:
                    allown = [x_ for tt, lst in own.items() for x_ in lst if on_tok(tt) == on_tok(t)] + shared
                    g.emit({"act": "readattrs", "s": s, "o": r.choice(allown), "types": READ_T}, t)
            elif stratum == "same_object" and x < 0.8:
                ref = shared[0]
                if r.random() < 0.3:
                    # a REJECTED template: its first entry is acceptable (and is applied to the object in memory), its second is read-only - the call must
                    # leave nothing behind, neither for this thread nor through another thread's commit
                    attr = ["label", "id", "date", "end"][t % 4]
                    first = {"label": A_bytes(K.CKA_LABEL, objs.label(ref, ":rej%d" % t + "".join(r.choice("abcdef") for _ in range(3)))), "id": A_bytes(K.CKA_ID, b"rej" + objs.rnd(r, 5)),
                             "date": A_bytes(K.CKA_START_DATE, ("19%02d0%d1%d" % (r.randrange(100), r.randint(1, 9), r.randint(0, 9))).encode()), "end": A_bytes(K.CKA_END_DATE, ("18%02d0%d1%d" % (r.randrange(100), r.randint(1, 9), r.randint(0, 9))).encode())}[attr]
                    g.emit({"f": "C_SetAttributeValue", "s": sess[t], "o": ref, "tmpl": [first, A_ulong(K.CKA_CLASS, K.CKO_DATA)], "rejected": True}, t, ok=False)
                elif r.random() < 0.75: op_set(t, ref, ["label", "id", "date", "end"][t % 4])
                else: g.emit({"act": "readattrs", "s": s, "o": ref, "types": READ_T}, t)
            elif stratum == "slots" and x < 0.6:
                y = r.random()
                if y < 0.4: g.emit({"f": "C_GetSlotList", "present": r.random() < 0.5, "cap": r.choice([None, None, 8])}, t)
                elif y < 0.6: g.emit({"f": "C_GetTokenInfo", "slot": on_tok(t)}, t)
                elif y < 0.8: g.emit({"f": "C_GetMechanismList", "slot": on_tok(t), "cap": None}, t)
                else:
                    s2 = g.new_sess(); g.emit({"f": "C_OpenSession", "slot": on_tok(t), "flags": RW, "out": s2}, t); g.emit({"f": "C_CloseSession", "s": s2}, t)
            elif stratum == "crypto" and x < 0.8:
                crypto(t)
            elif stratum == "session_objects" and x < 0.85:
                # session objects of a short-lived session die with it while other threads create and look up session objects of their own, long-lived sessions
                y = r.random()
                if y < 0.4:
                    s2 = g.new_sess()
                    g.emit({"f": "C_OpenSession", "slot": on_tok(t), "flags": RW, "out": s2}, t)
                    for _ in range(r.randint(1, 3)):
                        ref = g.new_obj(); tm, _ = objs.make(r.choice(["aes", "generic", "data"]), ref, r, token=False, private=False, flags={"sensitive": False, "extractable": True})
                        g.emit({"f": "C_CreateObject", "s": s2, "tmpl": tm, "out": ref}, t)
                    g.emit({"f": "C_CloseSession", "s": s2}, t)
                elif y < 0.75: create_own(t, token=False)
                else: g.emit({"act": "find", "s": s, "tmpl": [], "batches": []}, t)
            else:
                y = r.random()
                if y < 0.3: create_own(t)
                elif y < 0.45 and own[t]: op_set(t, r.choice(own[t]), r.choice(["label", "id"]) )
                elif y < 0.55 and own[t]: g.emit({"f": "C_DestroyObject", "s": s, "o": own[t].pop(r.randrange(len(own[t])))}, t)
                elif y < 0.7: g.emit({"act": "find", "s": s, "tmpl": [], "batches": []}, t)
                elif y < 0.8: crypto(t)
                elif y < 0.9: g.emit({"act": "readattrs", "s": s, "o": r.choice(shared + [keyref]), "types": READ_T}, t)
                else: g.emit({"f": "C_GenerateRandom", "s": s, "len": 16}, t)
    for t in range(nth): g.emit({"act": "barrier"}, t)
    # quiescence (thread 0 only from here)
    if stratum == "logout_private":
        g.emit({"f": "C_Logout", "s": sess[0], "q": True}, 0)
    g.emit({"f": "C_Login", "s": sess[0], "user": K.CKU_USER, "pin": up.hex(), "q": True}, 0)
    g.emit({"act": "readout", "s": sess[0], "tmpl": [], "types": READ_T, "q": "view"}, 0)
    if tok2: g.emit({"act": "readout", "s": sess[1], "tmpl": [], "types": READ_T, "q": "view"}, 0)
    g.emit({"act": "restart", "locking": locking}, 0)
    for tk in [tok] + ([tok2] if tok2 else []):
        sc = g.new_sess()
        g.emit({"f": "C_OpenSession", "slot": tk, "flags": RW, "out": sc}, 0)
        g.emit({"f": "C_Login", "s": sc, "user": K.CKU_USER, "pin": up.hex(), "q": True}, 0)
        g.emit({"act": "readout", "s": sc, "tmpl": [], "types": READ_T, "q": "cold"}, 0)
    g.extra["stratum"] = stratum; g.extra["locking"] = locking; g.extra["nthreads"] = nth
    return g.plan()

def prepare_park(plan, z):
    """'park' policy: counting pass without pre-emption (yield points per op), then 1-3 LONG pre-emptions: a task that reaches the chosen yield point (a mutex
    callback, a file operation) inside one of its calls of the concurrent phase stays off the processor until the other threads have completed n calls -
    the other threads complete whole calls inside one call of the parked thread (atomicity violations that need several foreign calls in the window)"""
    import random
    r = random.Random(plan["seed"] ^ 0x9A4C)
    p1 = copy.deepcopy(plan); p1["knobs"]["policy"] = "call"; p1["knobs"]["switch_p"] = 0.0
    res = z.run(p1)
    ny = {}; ym = {}
    for e in res.hist:
        if e.get("e") == "ret" and "cs" not in e: ny[(e["t"], e["op"])] = e.get("ny", 0); ym[(e["t"], e["op"])] = e.get("ym", [])
    cands = []
    for t, task in enumerate(plan["tasks"]):
        nb = 0
        for k, op in enumerate(task["ops"]):
            if op.get("act") == "barrier": nb += 1; continue
            if nb == 1 and op.get("f") and ny.get((t, k), 0) > 2: cands.append((t, k, ny[(t, k)]))
    parks = []
    prefer = [c for c in cands if plan["tasks"][c[0]]["ops"][c[1]].get("lcl") == "close_maybe_last" or plan["tasks"][c[0]]["ops"][c[1]].get("park_me")]
    if prefer:
        # every close that may be the token's last one (every C_SetPIN of the setpin_login stratum) gets its own long pre-emption at a random point inside it
        def ypick(t, k, n):
            # two thirds of the long pre-emptions start at a mutex operation (the windows between two critical sections are where atomicity is lost)
            m = [y for y in ym.get((t, k), []) if 0 < y < n]
            return r.choice(m) if m and r.random() < 0.67 else r.randrange(1, n)
        for t, k, n in prefer: parks.append([t, k, ypick(t, k, n), r.choice([1, 1, 2] if plan["tasks"][t]["ops"][k].get("park_me") else [2, 2, 3, 3, 4])])      # whole foreign calls inside the window
    elif cands:
        # calls that tear something down are where a window matters most: half of the parks go there
        closing = [c for c in cands if plan["tasks"][c[0]]["ops"][c[1]].get("f") in ("C_CloseSession", "C_Logout", "C_DestroyObject", "C_CloseAllSessions")]
        for _ in range(r.choice([1, 1, 2, 3])):
            t, k, n = r.choice(closing) if closing and r.random() < 0.6 else r.choice(cands)
            parks.append([t, k, r.randrange(1, n), r.choice([1, 1, 2, 2, 3, 4, 6])])      # number of foreign calls that complete inside the window
    plan = copy.deepcopy(plan)
    plan["knobs"]["parks"] = sorted(parks); plan["knobs"]["policy"] = "call"; plan["knobs"]["switch_p"] = r.choice([0.0, 0.1, 0.3]); plan["park_policy"] = True
    return plan

def prepare(plan, z):
    """'edge' policy: counting pass without pre-emption, then 1-30 pre-emption points at instrumented edges (DESIGN 2.3)"""
    if plan["knobs"].get("policy") == "park" and plan["knobs"].get("parks") is None:
        return prepare_park(plan, z)
    if plan["knobs"].get("policy") != "edge" or plan["knobs"].get("preempt") is not None:
        return plan
    import random
    r = random.Random(plan["seed"] ^ 0xED6E)
    p1 = copy.deepcopy(plan); p1["knobs"]["policy"] = "call"; p1["knobs"]["switch_p"] = 0.0
    res = z.run(p1)
    edges = {}
    for e in res.hist:
        if e.get("e") == "ret" and "cs" not in e: edges[(e["t"], e["op"])] = e.get("edges", 0)
    # only the concurrent phase: ops between the first and the second barrier of each task
    cands = []
    for t, task in enumerate(plan["tasks"]):
        nb = 0
        for k, op in enumerate(task["ops"]):
            if op.get("act") == "barrier": nb += 1; continue
            if nb == 1 and edges.get((t, k), 0) > 10: cands.append((t, k, edges[(t, k)]))
    pre = []
    if cands:
        for _ in range(r.choice([1, 2, 3, 5, 8, 13, 20, 30])):
            t, k, n = r.choice(cands)
            pre.append([t, k, r.randrange(n)])
    plan = copy.deepcopy(plan)
    plan["knobs"]["preempt"] = sorted(pre)
    return plan

def _v(cls, msg, **kw):
    d = {"class": cls, "msg": msg}; d.update(kw); return d

def check(plan, r):
    viols = []; cov = set(); stats = {}
    def st(k, n=1): stats[k] = stats.get(k, 0) + n
    stratum = plan.get("stratum"); locking = plan.get("locking"); policy = plan["knobs"].get("policy")
    res = r.result or {}
    sw = res.get("switches", {})
    nsw = sum(sw.get(k, 0) for k in ("Y1", "Y2", "Y3", "Y4"))
    if nsw: st("runs_with_switches")
    st("edge_preemptions", sw.get("Y4", 0))
    if plan.get("park_policy"): st("parks_fired", sw.get("forced", 0) and len(plan["knobs"].get("parks", [])))
    st("stratum_" + {"close_open": "close_open", "logout_private": "logout_private", "create_search": "create_search", "destroy_read": "destroy_read", "same_object": "same_object", "slots": "slots", "crypto": "crypto", "session_objects": "session_objects", "last_close_login": "last_close_login", "setpin_login": "setpin_login"}.get(stratum, "mixed"))
    # (v) mutex discipline
    for m in hist.mons(r, "mutex_discipline"):
        viols.append(_v("C18.mutex_discipline", "the library misused a mutex it got from the application: %s (mutex #%s)" % (m["d"].get("what"), m["d"].get("id")), call="mutex", manifestation=m["d"].get("what"))); break
    invn = {}
    for e in r.hist:
        if e.get("e") == "inv" and "cs" not in e: invn[(e["t"], e["op"])] = e["n"]
    evs = []
    for tid, k, op, ret in hist.walk(plan, r):
        e = c15.Ev(); e.tid = tid; e.k = k; e.pid = tid; e.op = op; e.ret = ret; e.inv = invn.get((tid, k), ret["n"]); e.retn = ret["n"]; e.f = hist.opname(op); e.ok = ret.get("rv") == 0
        evs.append(e)
    # (ii) handles issued as new are pairwise distinct
    seen_h = {}
    instance = 0
    for e in evs:
        if e.f in ("@restart", "@start"): seen_h = {}; instance += 1
        hs = []
        if e.ok and e.f == "C_OpenSession": hs.append(("session", e.ret.get("h")))
        if e.ok and e.f in ("C_CreateObject", "C_CopyObject", "C_GenerateKey"): hs.append(("object", e.ret.get("h")))
        for kind, h in hs:
            st("handles_checked")
            if h in seen_h and seen_h[h][1] != e.op.get("out"):
                viols.append(_v("C18.handle_twice", "handle %d was issued twice: to thread %d (%s %s) and to thread %d (%s %s)" % (h, seen_h[h][0], seen_h[h][2], seen_h[h][1], e.tid, kind, e.op.get("out")), call=e.f, op=e.k, manifestation="handle_issued_twice"))
            seen_h[h] = (e.tid, e.op.get("out"), kind)
    # object lives and writes (acknowledged calls)
    create = {}; create_try = {}; destroys = {}; writes = {}; priv = {}; tokflag = {}; klass = {}
    for e in evs:
        if e.f == "C_CreateObject" and e.op.get("out"):
            create_try[e.op["out"]] = e
            if e.ok:
                ref = e.op["out"]; create[ref] = e; priv[ref] = bool(tbool(e.op["tmpl"], K.CKA_PRIVATE)); tokflag[ref] = bool(tbool(e.op["tmpl"], K.CKA_TOKEN)); klass[ref] = int.from_bytes(tget(e.op["tmpl"], K.CKA_CLASS) or b"\0", "little")
                for x in e.op["tmpl"]:
                    if x[1] == "x": writes.setdefault((ref, x[0]), []).append((e.inv, e.retn, norm_supplied(x[0], bytes.fromhex(x[2])), e))
        elif e.f == "C_DestroyObject" and isinstance(e.op.get("o"), str): destroys.setdefault(e.op["o"], []).append(e)
        elif e.f == "C_SetAttributeValue" and isinstance(e.op.get("o"), str) and e.ok:
            for x in e.op["tmpl"]:
                if x[1] == "x": writes.setdefault((e.op["o"], x[0]), []).append((e.inv, e.retn, bytes.fromhex(x[2]), e))
    c15.writes_all = writes; c15.events_all = evs
    rejected = {}      # (ref, type) -> [(inv, retn, value)] of templates that were REJECTED (the call returned an error)
    for e in evs:
        if e.f == "C_SetAttributeValue" and e.op.get("rejected") and not e.ok and isinstance(e.op.get("o"), str):
            st("rejected_sets")
            for x in e.op["tmpl"]:
                if x[1] == "x": rejected.setdefault((e.op["o"], x[0]), []).append((e.inv, e.retn, bytes.fromhex(x[2])))
    def classify_rejected(v, e_, ref, attrs_):
        """a wrong value that is the value of a REJECTED template: seen while that call was still running = dirty read (attribute writes of a transaction go
        straight into the shared in-memory object); seen after it returned = the rejected change was applied"""
        t_ = K.C.get(v.get("attr")); a_ = attrs_.get(str(t_)) if t_ is not None else None
        if a_ is None or "v" not in a_: return
        val = bytes.fromhex(a_["v"])
        for (inv_, retn_, rv_) in rejected.get((ref, t_), []):
            if rv_ == val:
                running = inv_ < e_.retn and e_.inv < retn_
                v["class"] = "C18.dirty_read" if running else "C18.rejected_change_applied"
                v["manifestation"] = "value_of_a_running_rejected_call" if running else "rejected_template_value_persists"
                v["msg"] += " - this is the value of a template that was REJECTED (%s)" % ("that call was still running" if running else "after that call had returned its error")
                return
    def destroyed_before(ref, n): return any(d.ok and d.retn < n for d in destroys.get(ref, []))
    def destroy_started_before(ref, n): return any(d.inv < n for d in destroys.get(ref, []))
    def candidates(ref, typ, inv, retn):
        ws = [w_ for w_ in writes.get((ref, typ), []) if w_[0] < retn]
        if not any(w_[1] < inv for w_ in ws): return []
        return [w_[2] for w_ in ws if not any(o_[0] > w_[1] and o_[1] < inv for o_ in ws if o_ is not w_)]
    overlapping = 0
    for i, e in enumerate(evs):
        for e2 in evs[i + 1: i + 10]:
            if e2.tid != e.tid and e2.inv < e.retn and e.inv < e2.retn and e.f.startswith("C_") and e2.f.startswith("C_"): overlapping += 1
    st("overlapping_calls", overlapping)
    st("mutex_blocked", res.get("mutex_blocked", 0) if "mutex_blocked" in res else 0)
    st("mutex_locks", res.get("mutex_locks", 0))
    racy_run = (stratum == "logout_private")
    def annotate(v, ref, attrs):
        """two facts that identify the known defaulting race (KF-C18-DEFAULT-RACE): the wrong value is the attribute's DEFAULT, and some other thread looked at
        objects (search or attribute read, which wrap every object in a P11Object and fill in missing defaults) while the creating call was still running"""
        c = create.get(ref)
        t_ = K.C.get(v.get("attr"))
        a = attrs.get(str(t_)) if t_ is not None else None
        v["value_is_default"] = bool(a is not None and "v" in a and (a["v"] == "" or set(a["v"]) <= {"0"}))
        v["created_under_observation"] = bool(c is not None and any(o.tid != c.tid and o.f in ("@find", "@readout", "@readattrs") and o.inv < c.retn and c.inv < o.retn for o in evs))
    w = World()
    restarted = False
    lcl_login = {}; spl_state = {}
    import hashlib
    for e in evs:
        P = w.proc(1)
        s = w.sess(1, e.op.get("s")) if "s" in e.op else None
        q = e.op.get("q")
        if e.f == "@restart": restarted = True
        # plain expectations that hold for every schedule
        if e.f.startswith("C_") and not e.op.get("racy") and not racy_run and s is not None:
            if e.f in ("C_CreateObject",) and not e.ok and not priv.get(e.op.get("out")) :
                viols.append(_v("C18.unexplained", "thread %d: C_CreateObject of a public object in its own RW session returned %s - no sequential order explains that" % (e.tid, K.rvname(e.ret.get("rv"))), call=e.f, op=e.k, manifestation="spurious_failure", rv=K.rvname(e.ret.get("rv"))))
            if e.f in ("C_OpenSession", "C_CloseSession", "C_GetSessionInfo", "C_DigestInit", "C_DigestUpdate", "C_DigestFinal", "C_EncryptInit", "C_Encrypt", "C_SignInit", "C_Sign", "C_GenerateRandom", "C_GetSlotList", "C_GetTokenInfo", "C_GetMechanismList") and not e.ok:
                viols.append(_v("C18.unexplained", "thread %d: %s on its own session returned %s - no sequential order explains that" % (e.tid, e.f, K.rvname(e.ret.get("rv"))), call=e.f, op=e.k, manifestation="spurious_failure", rv=K.rvname(e.ret.get("rv"))))
        spl = e.op.get("spl")
        if spl:
            st("setpin_login_ops")
            if spl == "login": spl_state[e.tid] = "user" if e.ok else spl_state.get(e.tid)
            if spl == "logout": spl_state[e.tid] = "public" if e.ok else spl_state.get(e.tid)
            if spl is True and not e.ok:
                viols.append(_v("C18.unexplained", "thread %d: C_SetPIN with the correct old PIN returned %s - no sequential order explains that" % (e.tid, K.rvname(e.ret.get("rv"))), call=e.f, op=e.k, manifestation="spurious_failure", rv=K.rvname(e.ret.get("rv"))))
            if spl in ("info_user", "info_public") and e.ok and spl_state.get(e.tid) == spl[5:]:
                st("login_state_after_own_login_checked")
                want = K.CKS_RW_USER_FUNCTIONS if spl == "info_user" else K.CKS_RW_PUBLIC_SESSION
                if e.ret.get("state") != want:
                    viols.append(_v("C18.login_lost", "thread %d: after its own acknowledged %s (the only other calls on this token are C_SetPIN calls of another thread, which keep the login state) C_GetSessionInfo reports state %s - no sequential order of the calls explains that" % (e.tid, "C_Login" if spl == "info_user" else "C_Logout", e.ret.get("state")), call=e.f, op=e.k, manifestation="login_state_changed_by_concurrent_setpin"))
        lcl = e.op.get("lcl")
        if lcl:
            st("last_close_login_ops")
            if lcl == "login": lcl_login[e.tid] = e.ok
            if lcl == "info" and e.ok and lcl_login.get(e.tid):
                st("login_state_after_own_login_checked")
                if e.ret.get("state") != K.CKS_RW_USER_FUNCTIONS:
                    viols.append(_v("C18.login_lost", "thread %d logged in through its own open session (C_Login returned CKR_OK, nobody logged out, the session is still open) and C_GetSessionInfo reports state %s - no sequential order of the calls explains that" % (e.tid, e.ret.get("state")), call=e.f, op=e.k, manifestation="login_undone_by_concurrent_close"))
            if lcl == "private" and lcl_login.get(e.tid) and not e.ok:
                viols.append(_v("C18.login_lost", "thread %d logged in through its own open session and cannot create a private object there: %s - no sequential order of the calls explains that" % (e.tid, K.rvname(e.ret.get("rv"))), call=e.f, op=e.k, manifestation="login_undone_by_concurrent_close", rv=K.rvname(e.ret.get("rv"))))
        if e.f == "C_OpenSession" and not e.ok and s is None and not racy_run and "q" not in e.op:
            viols.append(_v("C18.unexplained", "thread %d: C_OpenSession returned %s - no sequential order explains that" % (e.tid, K.rvname(e.ret.get("rv"))), call=e.f, op=e.k, manifestation="spurious_failure", rv=K.rvname(e.ret.get("rv"))))
        if e.op.get("expect") and e.ok and "out" in e.ret:
            data = bytes.fromhex(e.op["data"]); out = bytes.fromhex(e.ret["out"])
            if e.op["expect"] == "digest" and out != hashlib.sha256(data).digest():
                viols.append(_v("C18.wrong_result", "thread %d: SHA-256 of its own data is wrong - another session's operation interfered" % e.tid, call=e.f, op=e.k, manifestation="crypto_interference"))
            if e.op["expect"] in ("aes", "hmac"):
                key = (e.op["expect"], e.op["data"])
                prev = getattr(check, "_memo", None)
                memo = r.aux.setdefault("memo", {})
                if key in memo and memo[key] != out:
                    viols.append(_v("C18.wrong_result", "two %s computations over the same data with the same key differ" % e.op["expect"], call=e.f, op=e.k, manifestation="crypto_interference"))
                memo[key] = out
        # searches and reads with interval semantics
        if e.f in ("@find", "@readout") and s is not None and e.ok and not racy_run:
            user_in = w.user_logged_in(1, s.tok)
            got = [(ent.get("ref") or P.h2obj.get(ent["h"])) for ent in e.ret.get("ids", [])]
            def vis(ref):
                c = create_try.get(ref)
                if c is None: return False
                cs = w.sess(1, c.op.get("s")) or None
                tokref = c.op.get("_tok")
                return True
            where = {"view": "quiescence", "cold": "after_restart"}.get(q, "run")
            if q == "view": st("quiescence_checked")
            if q == "cold": st("restart_checked")
            # which objects belong to this session's token
            def same_token(ref):
                c = create.get(ref) or create_try.get(ref)
                cs_ref = c.op.get("s")
                return plan_tok(plan, cs_ref) == s.tok
            unident = any(x is None for x in got)
            tmpl = e.op.get("tmpl", [])
            def matches(ref):
                for x in tmpl:
                    if x[0] == K.CKA_CLASS and klass.get(ref) != int.from_bytes(bytes.fromhex(x[2]), "little"): return False
                return True
            for ref, c in create.items():
                if not same_token(ref) or not matches(ref): continue
                alive_throughout = c.retn < e.inv and not destroy_started_before(ref, e.retn)
                if where == "after_restart" and not tokflag[ref]: continue
                if where != "after_restart" and not tokflag[ref] and session_closed_before(evs, c.op.get("s"), e.retn): continue
                if alive_throughout and (not priv[ref] or user_in) and ref not in got and not (unident and where == "run"):
                    viols.append(_v("C18.lost_object", "object %s (created by thread %d, acknowledged) is not found by thread %d [%s]" % (ref, c.tid, e.tid, where), call="C_FindObjects", op=e.k, where=where, manifestation="lost_object"))
            for ref in got:
                if ref is None:
                    if where != "run": viols.append(_v("C18.corrupt_object", "an object without readable label is found [%s]" % where, call="C_FindObjects", op=e.k, where=where, manifestation="corrupt_object"))
                    continue
                if ref in create_try and destroyed_before(ref, e.inv):
                    viols.append(_v("C18.ghost", "object %s is found although its destruction was acknowledged before the search began [%s]" % (ref, where), call="C_FindObjects", op=e.k, where=where, manifestation="destroyed_object_found"))
                if where == "after_restart" and ref in tokflag and not tokflag[ref]:
                    viols.append(_v("C18.ghost", "session object %s survives the restart" % ref, call="C_FindObjects", op=e.k, where=where, manifestation="session_object_survived"))
            if len([x for x in got if x]) != len(set(x for x in got if x)):
                viols.append(_v("C18.duplicate", "an object is found twice: %s [%s]" % (got, where), call="C_FindObjects", op=e.k, where=where, manifestation="duplicated_object"))
            if e.f == "@readout":
                for ent, oj in zip(e.ret.get("ids", []), e.ret.get("objs", [])):
                    ref = ent.get("ref")
                    if ref and ref in create:
                        for v in c15.check_values(e, ref, oj["attrs"], candidates, where, policy, st, create, {}):
                            v["class"] = v["class"].replace("C15.", "C18."); annotate(v, ref, oj["attrs"]); classify_rejected(v, e, ref, oj["attrs"]); viols.append(v)
        elif e.f == "@readattrs" and isinstance(e.op.get("o"), str) and e.op["o"] in create and not racy_run and not e.op.get("racy"):
            ref = e.op["o"]
            if not destroy_started_before(ref, e.retn) and any(rr == ref for rr in P.h2obj.values()):
                for v in c15.check_values(e, ref, e.ret.get("attrs", {}), candidates, "run", policy, st, create, {}):
                    v["class"] = v["class"].replace("C15.", "C18."); annotate(v, ref, e.ret.get("attrs", {})); classify_rejected(v, e, ref, e.ret.get("attrs", {})); viols.append(v)
        w.apply(1, e.op, e.ret)
    tr = res.get("trace", [])
    sched = hashlib.sha256(repr([(d[0], d[3]) for d in tr]).encode()).hexdigest()[:12]
    cov.add("%s|%s|%s|n%d|%s" % (locking, policy, stratum, plan.get("nthreads", 0), sched))
    r.aux["c18"] = (cov, stats)
    seen = set(); out = []
    for v in viols:
        key = (v["class"], v.get("manifestation"), v.get("where"))
        if key in seen: continue
        seen.add(key); out.append(v)
    return out[:6]

def plan_tok(plan, sref):
    for t in plan["tasks"]:
        for op in t["ops"]:
            if op.get("f") == "C_OpenSession" and op.get("out") == sref: return op.get("slot")
    return None

def session_closed_before(evs, sref, n):
    return any(e.f in ("C_CloseSession",) and e.op.get("s") == sref and e.inv < n for e in evs) or any(e.f == "@restart" and e.inv < n for e in evs)

def cover(plan, r):
    cov, stats = r.aux.get("c18", (set(), {}))
    return {"keys": sorted(cov), "nontrivial": stats.get("runs_with_switches", 0) > 0, "stats": stats}

TECHNIQUE = "deterministic simulation of caller threads: parked real pthreads released one at a time by a seeded scheduler at mutex callbacks, file operations and instrumented basic-block edges (two-pass pre-emption placement), under ASan"
CLAIM = ("Seeded search over thread schedules of one locking-enabled library instance: the simulator owns every mutex (application callbacks, or wrapped pthread mutexes in OS-locking mode) and every pre-emption "
         "(call boundaries, lock/unlock, file operations, and forced switches at instrumented control-flow edges of the repository code), so a schedule is a pure function of the seed and replays exactly. Necessary "
         "conditions of the statement are checked: no crash / sanitizer report (a use-after-free exposed by a forced interleaving is one) / exit / deadlock / step-budget overrun; no handle issued twice; searches and "
         "reads explainable at some point between invocation and return; objects conserved at quiescence and after restart; mutex discipline. Evidence, not proof; TSan is not part of the oracle (blind under a serialising scheduler).")
NOTE = "Trusted: the scheduler (only one thread runs; code inside libcrypto/libstdc++ is atomic to it), ASan; schedules come from four policies (coin flip at every yield, pre-emption at instrumented edges, long pre-emptions placed by a counting pass, guided replay). File back end only, as the property says. C_CloseAllSessions/C_Finalize/C_InitToken are only issued at quiescent points (their concurrent use is an application error under PKCS#11)."
