"""C20 - behaviour does not depend on the storage back end or the crypto back end (DESIGN 4 C20, 10.7).

One seeded plan (objects, attributes, searches, restarts, a cold second library copy, crypto / wrap / derive episodes with imported keys) is executed under the
four configurations {file, db} x {OpenSSL, Botan}: two builds of the executor (variants `asan` and `botan`, the latter with the repo's Botan* sources and the
simulator's PRNG behind BotanRNG), the object store chosen by objectstore.backend (the SQLite store runs over a real scratch directory through the
pass-through path of the file layer).  Then every blob made under OpenSSL is fed to Botan's consumers and vice versa (cross runs).
"""
import os, json, copy, hashlib, tempfile, shutil
import p11const as K
from p11const import A_bool, A_ulong, A_bytes
from store import StoreW
from gen import RW, RO
import hist, objs, mechs, simdrv

LEVEL = "exploration"
VARIANT = "asan"
VARIANTS = ["asan", "botan"]
QUICK_RUNS = 200
QUICK_BUDGET_S = 300
THOROUGH_RUNS = 10 ** 7
SHRINK_BUDGET = 60
RULE = ("one seeded call sequence (imported keys of the pool, every object kind, set/copy/destroy, searches, restarts, cold second copy, encrypt/decrypt, sign/verify, digest, wrap/unwrap, derive with the "
        "mechanisms both crypto back ends advertise, a share of ill-formed calls) is executed under file/OpenSSL, db/OpenSSL, file/Botan, db/Botan; per call the return code, every attribute read, every "
        "search result (as a set) and every output of a deterministic mechanism must be equal; outputs of randomised mechanisms (RSA PKCS#1 v1.5 encryption, OAEP, PSS, ECDSA) and everything made under one crypto "
        "back end are fed to the other one's decrypt / verify / unwrap calls, whose results must equal those of its own run. Values of generated keys are masked (they depend on how each back end consumes the RNG). "
        "Distinct+non-trivial: (call, mechanism, outcome) triples compared in at least one pair of configurations.")
PROBES = ["calls_compared", "attr_reads_compared", "outputs_compared_deterministic", "randomised_outputs_cross_checked", "cross_consumers_compared", "restart_compared", "coldcopy_compared", "error_codes_compared", "db_backend_runs", "botan_runs", "multipart_compared"]
DEATH_IS_VIOLATION = ()

CONFIGS = [("ossl", "file"), ("ossl", "db"), ("botan", "file"), ("botan", "db")]
def cname(c): return "%s/%s" % (c[1], c[0])

# ---------------------------------------------------------------------------------------------------- mechanisms (name, mechanism builder, randomised?, multi-part?, block)
def T_ENC(r):
    iv16 = objs.rnd(r, 16); iv8 = objs.rnd(r, 8)
    return {"aes": [("AES_ECB", mechs.simple(K.CKM_AES_ECB), False, True, 16), ("AES_CBC", mechs.simple(K.CKM_AES_CBC, iv16), False, True, 16), ("AES_CBC_PAD", mechs.simple(K.CKM_AES_CBC_PAD, iv16), False, True, 1),
                    ("AES_CTR", mechs.ctr(128, iv16), False, True, 1), ("AES_GCM", mechs.gcm(objs.rnd(r, 12), objs.rnd(r, r.choice([0, 9])), r.choice([128, 96, 64])), False, True, 1)],
            "des3": [("DES3_ECB", mechs.simple(K.CKM_DES3_ECB), False, True, 8), ("DES3_CBC", mechs.simple(K.CKM_DES3_CBC, iv8), False, True, 8), ("DES3_CBC_PAD", mechs.simple(K.CKM_DES3_CBC_PAD, iv8), False, True, 1)],
            "rsa": [("RSA_PKCS", mechs.simple(K.CKM_RSA_PKCS), True, False, 0), ("RSA_PKCS_OAEP", mechs.oaep(K.CKM_SHA_1, K.CKG_MGF1_SHA1), True, False, 0), ("RSA_X_509", mechs.simple(K.CKM_RSA_X_509), False, False, -1)]}

def T_SIGN(r):
    return {"aes": [("AES_CMAC", mechs.simple(K.CKM_AES_CMAC), False, True, 1)], "des3": [("DES3_CMAC", mechs.simple(K.CKM_DES3_CMAC), False, True, 1)],
            "generic": [(n, mechs.simple(getattr(K, "CKM_" + n)), False, True, 1) for n in ("MD5_HMAC", "SHA_1_HMAC", "SHA224_HMAC", "SHA256_HMAC", "SHA384_HMAC", "SHA512_HMAC")],
            "rsa": [("RSA_PKCS", mechs.simple(K.CKM_RSA_PKCS), False, False, 0), ("RSA_X_509", mechs.simple(K.CKM_RSA_X_509), False, False, -1)] +
                   [(n, mechs.simple(getattr(K, "CKM_" + n)), False, True, 1) for n in ("SHA1_RSA_PKCS", "SHA224_RSA_PKCS", "SHA256_RSA_PKCS", "SHA384_RSA_PKCS", "SHA512_RSA_PKCS")] +
                   [("RSA_PKCS_PSS", mechs.pss(K.CKM_RSA_PKCS_PSS, K.CKM_SHA256, K.CKG_MGF1_SHA256, 32), True, False, 32), ("SHA256_RSA_PKCS_PSS", mechs.pss(K.CKM_SHA256_RSA_PKCS_PSS, K.CKM_SHA256, K.CKG_MGF1_SHA256, r.choice([0, 20, 32])), True, True, 1),
                    ("SHA1_RSA_PKCS_PSS", mechs.pss(K.CKM_SHA1_RSA_PKCS_PSS, K.CKM_SHA_1, K.CKG_MGF1_SHA1, 20), True, True, 1)],
            "ec": [("ECDSA", mechs.simple(K.CKM_ECDSA), True, False, 0)]}

DIGESTS = ["MD5", "SHA_1", "SHA224", "SHA256", "SHA384", "SHA512"]

class GW(StoreW):
    def __init__(self, *a, **kw):
        super().__init__(*a, **kw)
        self.tainted = set(); self.pairs = {}; self.nblob = 0

    def usable(self, pid, kinds, need=None, same_tok=None):
        return [o for o in super().usable(pid, kinds, need, same_tok) if o.ref not in self.tainted]

    def s_gen(self, tid=0, pid=1):
        ref = super().s_gen(tid, pid)
        if ref: self.tainted.add(ref)
        return ref

    def s_genpair(self, tid=0, pid=1):
        n0 = self.n_obj
        ref = super().s_genpair(tid, pid)
        for k in range(n0 + 1, self.n_obj + 1): self.tainted.add("O%d" % k)
        return ref

    def s_copy(self, tid=0, pid=1, obj=None):
        ref = super().s_copy(tid, pid, obj)
        op = self.ops[tid][-2] if ref else None
        for o_ in reversed(self.ops[tid][-3:]):
            if o_.get("f") == "C_CopyObject" and o_.get("o") in self.tainted: self.tainted.add(o_["out"])
        return ref

    # ---- keys for the crypto episodes
    def key_for(self, tid, pid, kk, fam):
        """returns (producer key ref, consumer key ref, session) or None"""
        r = self.r
        live = [s for s in self.live_sessions(pid) if s.rw and self.P(pid).login.get(s.tok) == "U"]
        if not live: return None
        s = r.choice(live)
        if kk in ("aes", "des3", "generic"):
            ks = self.usable(pid, [kk], same_tok=s.tok)
            if not ks or r.random() < 0.15:
                ref = self.s_create(tid, pid, kind=kk, sess=s, token=r.random() < 0.5, private=r.random() < 0.5, **({"vlen": r.choice([16, 24, 32])} if kk == "aes" else {"vlen": r.choice([16, 32, 48, 64])} if kk == "generic" else {}))
                if not ref or ref not in self.w.objs: return None
                return ref, ref, s
            o = r.choice(ks); return o.ref, o.ref, s
        pool = "rsa" if kk == "rsa" else "ec"
        idx = r.randrange(len(objs.POOL[pool]))
        key = (s.tok, pool, idx)
        pr = self.pairs.get(key)
        if pr is None or not all(x in self.w.objs and self.w.objs[x].alive and x in self.P(pid).h2obj.values() for x in pr):
            tokn = r.random() < 0.5
            pub = self.s_create(tid, pid, kind=pool + "_pub", sess=s, token=tokn, private=False, flags={"pool": idx})
            prv = self.s_create(tid, pid, kind=pool + "_priv", sess=s, token=tokn, private=r.random() < 0.5, flags={"pool": idx})
            if not pub or not prv or pub not in self.w.objs or prv not in self.w.objs: return None
            pr = (pub, prv); self.pairs[key] = pr
        pub, prv = pr
        return (pub, prv, s) if fam == "enc" else (prv, pub, s)

    def blob(self):
        self.nblob += 1; return "b%d" % self.nblob

    def chunks(self, data):
        r = self.r; out = []; off = 0
        while off < len(data) or not out:
            sz = r.choice([0, 1, 15, 16, 17, 32, 33, 64]); sz = min(sz, len(data) - off)
            if sz == 0 and off < len(data) and r.random() < 0.8: sz = min(16, len(data) - off)
            out.append(data[off:off + sz]); off += sz
            if not data: break
        return out

    def s_crypto(self, tid=0, pid=1):
        r = self.r
        fam = r.choice(["enc", "enc", "sign", "sign", "digest"])
        E = lambda op: self.emit(op, tid, ok=False)
        if fam == "digest":
            live = self.live_sessions(pid)
            if not live: return False
            s = r.choice(live).ref; name = r.choice(DIGESTS); m = mechs.simple(getattr(K, "CKM_" + name))
            data = objs.rnd(r, r.choice([0, 1, 55, 56, 63, 64, 65, 200, 1000]))
            E({"f": "C_DigestInit", "s": s, "mech": m, "mn": name})
            if r.random() < 0.5: E({"f": "C_Digest", "s": s, "in": data.hex(), "outcap": r.choice([64, 64, None, 3]), "mn": name})
            else:
                for ch in self.chunks(data): E({"f": "C_DigestUpdate", "s": s, "in": ch.hex(), "mn": name, "mp": True})
                ks = self.usable(pid, ["aes", "generic"])
                if ks and r.random() < 0.25: E({"f": "C_DigestKey", "s": s, "key": r.choice(ks).ref, "mn": name, "mp": True})
                E({"f": "C_DigestFinal", "s": s, "outcap": 64, "mn": name, "mp": True})
            return True
        table = T_ENC(r) if fam == "enc" else T_SIGN(r)
        kk = r.choice(list(table))
        got = self.key_for(tid, pid, kk, fam)
        if not got: return False
        kprod, kcons, S = got; s = S.ref
        name, m, rand, multi, blk = r.choice(table[kk])
        # data
        modlen = 128
        if kk == "rsa":
            for key_, pr in self.pairs.items():
                if kprod in pr or kcons in pr: modlen = len(objs.POOL["rsa"][key_[2]]["n"]) // 2
            if name == "RSA_X_509": n = r.choice([modlen, modlen, 1, modlen - 1, modlen + 1])
            elif name == "RSA_PKCS": n = r.choice([1, 20, 32, modlen - 11, modlen - 10]) if fam == "enc" else r.choice([20, 32, 35, 51, modlen - 11, modlen - 10])
            elif name == "RSA_PKCS_OAEP": n = r.choice([0, 1, 16, modlen - 42, modlen - 41])
            elif name == "RSA_PKCS_PSS": n = r.choice([32, 32, 20])
            else: n = r.choice([0, 1, 64, 200])
        elif kk == "ec": n = r.choice([20, 32, 48, 64, 1])
        elif blk > 1: n = blk * r.choice([1, 2, 3, 5]) + (r.choice([1, blk - 1]) if r.random() < 0.12 else 0)
        else: n = r.choice([0, 1, 15, 16, 17, 31, 32, 33, 100, 1000])
        data = objs.rnd(r, n)
        if name == "RSA_X_509" and n == modlen: data = b"\x00" + data[1:]       # a raw RSA block must be smaller than the modulus
        illformed = (blk > 1 and n % blk != 0) or (name == "RSA_X_509" and n != modlen) or (name == "RSA_PKCS" and n > modlen - 11) or (name == "RSA_PKCS_OAEP" and n > modlen - 42) or (name == "RSA_PKCS_PSS" and n != 32) or (kk == "ec" and n == 1)
        b = self.blob()
        FN = {"enc": ("C_EncryptInit", "C_Encrypt", "C_EncryptUpdate", "C_EncryptFinal", "C_DecryptInit", "C_Decrypt", "C_DecryptUpdate", "C_DecryptFinal"),
              "sign": ("C_SignInit", "C_Sign", "C_SignUpdate", "C_SignFinal", "C_VerifyInit", "C_Verify", "C_VerifyUpdate", "C_VerifyFinal")}[fam]
        tag = {"mn": name, "kk": kk}
        if rand: tag["rand"] = True
        # ---- producer
        E({"f": FN[0], "s": s, "mech": m, "key": kprod, **tag})
        mp = multi and r.random() < 0.4
        if not mp:
            E({"f": FN[1], "s": s, "in": data.hex(), "outcap": 1200, "save": b, **tag})
        else:
            for ch in self.chunks(data):
                op = {"f": FN[2], "s": s, "in": ch.hex(), "mp": True, **tag}
                if fam == "enc": op["outcap"] = 1200; op["append"] = b
                E(op)
            op = {"f": FN[3], "s": s, "outcap": 1200, "mp": True, **tag}
            op["append" if fam == "enc" else "save"] = b
            E(op)
        if illformed: return True      # the producer is expected to refuse: there is no blob to consume
        # ---- consumer (sometimes on a damaged blob, sometimes with the wrong key kind)
        dmg = {}
        x = r.random()
        if x < 0.15: dmg["flip"] = r.randrange(8 * 2048)
        elif x < 0.22: dmg["trunc"] = r.choice([0, 1, 15, 16, 17, 127])
        src = {"from": b}; src.update(dmg)
        ctag = dict(tag); ctag.pop("rand", None); ctag["consumer"] = True
        if dmg: ctag["damaged"] = True
        E({"f": FN[4], "s": s, "mech": m, "key": kcons, **ctag})
        mp2 = multi and r.random() < 0.4
        if fam == "enc":
            if not mp2: E({"f": FN[5], "s": s, "in": src, "outcap": 1200, **ctag})
            else:
                o2 = 0
                sizes = [r.choice([0, 1, 16, 17, 32, 40]) for _ in range(r.randint(1, 3))]
                for i, sz in enumerate(sizes):
                    last = i == len(sizes) - 1
                    E({"f": FN[6], "s": s, "in": dict(src, off=o2, **({} if last else {"n": sz})), "outcap": 1200, "mp": True, **ctag}); o2 += sz
                E({"f": FN[7], "s": s, "outcap": 1200, "mp": True, **ctag})
        else:
            vdata = data if r.random() < 0.9 else data + b"x"
            if not mp2: E({"f": FN[5], "s": s, "in": vdata.hex(), "sig": src, **ctag})
            else:
                for ch in self.chunks(vdata): E({"f": FN[6], "s": s, "in": ch.hex(), "mp": True, **ctag})
                E({"f": FN[7], "s": s, "sig": src, "mp": True, **ctag})
        return True

    def s_misc(self, tid=0, pid=1):
        r = self.r; live = self.live_sessions(pid)
        x = r.random(); E = lambda op: self.emit(op, tid, ok=False)
        if x < 0.25: E({"f": "C_GetTokenInfo", "slot": r.choice(self.toks())})
        elif x < 0.4 and live: E({"f": "C_GetSessionInfo", "s": r.choice(live).ref})
        elif x < 0.55 and live: E({"f": "C_GenerateRandom", "s": r.choice(live).ref, "len": r.choice([0, 1, 16, 100]), "rand": True})
        elif x < 0.7 and live:
            # mismatching mechanism / key
            s = r.choice(live); ks = self.usable(pid, ["aes", "generic", "des3", "rsa_pub", "rsa_priv", "ec_priv", "ec_pub", "data"], same_tok=s.tok)
            if not ks: return False
            o = r.choice(ks)
            m = r.choice([mechs.simple(K.CKM_AES_ECB), mechs.simple(K.CKM_AES_CBC, objs.rnd(r, r.choice([0, 8, 15, 16, 17]))), mechs.simple(K.CKM_DES3_CBC, objs.rnd(r, 8)), mechs.simple(K.CKM_RSA_PKCS), mechs.simple(K.CKM_ECDSA), mechs.simple(K.CKM_SHA256_HMAC), mechs.simple(K.CKM_AES_CMAC),
                          mechs.gcm(objs.rnd(r, r.choice([0, 12])), b"", r.choice([0, 8, 128, 136])), mechs.ctr(r.choice([0, 64, 128, 129]), objs.rnd(r, 16)), mechs.simple(0x7FFFFFF1)])
            fn = r.choice(["C_EncryptInit", "C_DecryptInit", "C_SignInit", "C_VerifyInit"])
            E({"f": fn, "s": s.ref, "mech": m, "key": o.ref, "mn": "mismatch"})
            E({"f": {"C_EncryptInit": "C_Encrypt", "C_DecryptInit": "C_Decrypt", "C_SignInit": "C_Sign"}.get(fn, "C_Sign"), "s": s.ref, "in": objs.rnd(r, 16).hex(), "outcap": 600, "mn": "mismatch", "rand": True})
        elif live:
            s = r.choice(live)
            E({"f": "C_SeedRandom", "s": s.ref, "in": objs.rnd(r, 8).hex()})
        return True

W = {"create": 14, "gen": 3, "genpair": 1.5, "unwrap": 5, "derive": 6, "copy": 4, "setattr": 7, "destroy": 3, "readout": 3, "find": 4, "crypto": 34, "restart": 2, "coldcopy": 1,
     "login": 2, "logout": 1, "open": 2, "close": 1, "misc": 4}

def gen(seed, tier, index):
    g = GW(seed, "C20", profile="diff", ntok=(1 if index % 3 else 2))
    r = g.r; g.max_objs = 16
    g.kinds = list(objs.KINDS)
    g.begin()
    for t in g.toks():
        g.s_open(tok=t, rw=True); g.s_login(user=K.CKU_USER, tok=t)
    n = r.choice([10, 16, 24, 32]) if tier == "quick" else r.choice([20, 40, 60])
    for _ in range(n):
        name = g.step(W)
        if name in ("restart", "coldcopy"): g.relogin_all()
    g.s_restart(); g.relogin_all()
    g.extra["tainted"] = sorted(g.tainted)
    g.extra["kinds"] = {ref: i.get("kind") for ref, i in g.info.items()}
    return g.plan()

# ---------------------------------------------------------------------------------------------------- runner: one plan, four configurations + two cross runs
class Runner:
    def __init__(self):
        self.z = {"ossl": simdrv.Zygote("asan"), "botan": simdrv.Zygote("botan")}
        self.scratch = tempfile.mkdtemp(prefix="p11c20-", dir=simdrv.scratch_root())
        self.n = 0
        import atexit; atexit.register(self.close)
    def close(self):
        for z in self.z.values(): z.close()
        if self.scratch: shutil.rmtree(self.scratch, ignore_errors=True); self.scratch = None
    def one(self, plan, cfg):
        p = copy.deepcopy(plan); kn = p.setdefault("knobs", {}); kn.setdefault("conf", {})
        real = None
        if cfg[1] == "db":
            self.n += 1; real = os.path.join(self.scratch, "t%d" % self.n); os.makedirs(real)
            kn["conf"]["objectstore.backend"] = "db"; kn["tokendir"] = real
        try:
            return self.z[cfg[0]].run(p)
        finally:
            if real: shutil.rmtree(real, ignore_errors=True)
    def run(self, plan):
        runs = {}
        for cfg in CONFIGS: runs[cname(cfg)] = self.one(plan, cfg)
        cross = {}
        a, b = "file/ossl", "file/botan"
        if not runs[a].died and not runs[b].died:
            for prod, cons, ccfg in ((a, b, ("botan", "file")), (b, a, ("ossl", "file"))):
                blobs = blobs_of(plan, runs[prod])
                cross["%s<-%s" % (cons, prod)] = self.one(feed(plan, blobs), ccfg)
        ref = runs["file/ossl"]
        r = simdrv.RunResult(); r.plan = plan; r.status = ref.status; r.wstatus = ref.wstatus; r.hist = ref.hist; r.stderr = ref.stderr
        r.result = dict(ref.result) if ref.result else None
        h = hashlib.sha256()
        for k in sorted(runs): h.update(json.dumps(canon(plan, runs[k]), sort_keys=True, default=str).encode())
        for k in sorted(cross): h.update(json.dumps(canon(plan, cross[k]), sort_keys=True, default=str).encode())
        if r.result is not None: r.result["hash"] = h.hexdigest()[:16]
        r.aux["c20"] = {"runs": runs, "cross": cross}
        return r

def blobs_of(plan, r):
    """name -> bytes of every blob saved by the run (producer outputs)"""
    out = {}
    for tid, k, op, ret in hist.walk(plan, r):
        if ret.get("rv") != 0 or "out" not in ret: continue
        if op.get("save"): out[op["save"]] = bytes.fromhex(ret["out"])
        elif op.get("append"): out[op["append"]] = out.get(op["append"], b"") + bytes.fromhex(ret["out"])
    return out

def lit(v, blobs):
    """what the executor's get_in() computes for {"from":..,"flip":..,"trunc":..,"off":..,"n":..}, as literal hex"""
    s = bytearray(blobs.get(v["from"], b""))
    if "flip" in v and s:
        bit = v["flip"] % (len(s) * 8); s[bit // 8] ^= 1 << (bit % 8)
    if "trunc" in v and v["trunc"] < len(s): s = s[: v["trunc"]]
    if "off" in v:
        o = v["off"]; s = s[o: o + v["n"]] if "n" in v else s[o:]
    return bytes(s).hex()

def feed(plan, blobs):
    p = copy.deepcopy(plan)
    for t in p["tasks"]:
        for op in t["ops"]:
            if not op.get("consumer") and op.get("f") != "C_UnwrapKey": continue
            for key in ("in", "sig"):
                if isinstance(op.get(key), dict) and "from" in op[key] and op[key]["from"] in blobs: op[key] = lit(op[key], blobs)
    return p

# ---------------------------------------------------------------------------------------------------- canonical, comparable history
STRIP = ("h", "h2", "hs", "ho", "hk", "hw", "hu", "hb", "n", "t", "p", "e", "op", "edges", "files", "slot", "path", "serial", "utc", "cap", "fsn", "ny", "wmax", "ym", "rng", "touched", "inlen", "unres", "tree", "scan", "slots", "sessions", "objects", "free_pub", "free_priv", "total_pub", "total_priv")
VALUE_ATTRS = {K.CKA_VALUE, K.CKA_CHECK_VALUE, K.CKA_EC_POINT, K.CKA_MODULUS, K.CKA_PUBLIC_EXPONENT, K.CKA_PRIVATE_EXPONENT}

def canon(plan, r):
    tainted = set(plan.get("tainted", []))
    out = []
    def strip(x):
        if isinstance(x, dict): return {k: strip(v) for k, v in x.items() if k not in STRIP}
        if isinstance(x, list): return [strip(v) for v in x]
        return x
    def mask(ref, attrs):
        if ref in tainted: return {t: a for t, a in attrs.items() if int(t) not in VALUE_ATTRS}
        return attrs
    for tid, k, op, ret in hist.walk(plan, r):
        d = strip(ret)
        f = hist.opname(op)
        if "ids" in ret:
            refs = [(e.get("ref") or "?") for e in ret.get("ids", [])]
            d["ids"] = sorted(refs)
            if "objs" in ret:
                d["objs"] = sorted(json.dumps((ref, mask(ref, o.get("attrs", {}))), sort_keys=True) for ref, o in zip(refs, ret.get("objs", [])))
            d["batches"] = [(b.get("max"), b.get("rv"), b.get("n")) for b in ret.get("batches", [])]
        if f == "@readattrs" and isinstance(op.get("o"), str) and "attrs" in d:
            d["attrs"] = mask(op["o"], d["attrs"])
        if op.get("rand") or op.get("rng"):
            d.pop("out", None)
            if f == "C_GenerateRandom": d.pop("len", None)
        if f in ("C_GenerateKey", "C_GenerateKeyPair"): d.pop("out", None)
        if f in ("@start", "@restart"): d = {"rv": d.get("rv"), "fin_rv": d.get("fin_rv")}
        out.append((tid, k, f, d))
    # multi-part operations: PKCS#11 leaves open how much each C_*Update hands out and how much it keeps for later; what is compared is the output of the
    # OPERATION - the concatenation over its Update/Final calls, attached to the call that ends it - and every call's return code
    acc = {}
    for i, (tid, k, f, d) in enumerate(out):
        op = plan["tasks"][tid]["ops"][k]
        if not op.get("mp") or f not in ("C_EncryptUpdate", "C_DecryptUpdate", "C_EncryptFinal", "C_DecryptFinal"): continue
        key = (tid, op.get("s"))
        d = dict(d); piece = d.pop("out", "") or ""; d.pop("len", None)
        if d.get("rv") == 0: acc[key] = acc.get(key, "") + piece
        if f.endswith("Final") or d.get("rv") != 0:
            tot = acc.pop(key, "")
            if d.get("rv") == 0: d["total"] = tot        # what a FAILED operation handed out before it failed depends on the buffering again: only its return codes are compared
        out[i] = (tid, k, f, d)
    return out

def _v(cls, msg, **kw):
    d = {"class": cls, "msg": msg}; d.update(kw); return d

def first_diff(a, b):
    for x, y in zip(a, b):
        if x != y: return x, y
    if len(a) != len(b): return (a[len(b)] if len(a) > len(b) else None), (b[len(a)] if len(b) > len(a) else None)
    return None

def describe(plan, x, y, ca, cb, cls_prefix="C20"):
    v = describe0(plan, x, y, ca, cb)
    if x is not None and y is not None:
        op = plan["tasks"][x[0]]["ops"][x[1]]
        v["damaged"] = bool(op.get("damaged")); v["consumer"] = bool(op.get("consumer"))
        if op.get("f") == "C_WrapKey": v["wrapped_kind"] = plan.get("kinds", {}).get(op.get("key"))
        src = op.get("in") if isinstance(op.get("in"), dict) else op.get("sig") if isinstance(op.get("sig"), dict) else None
        if op.get("damaged"):
            # the damage sits on the consuming call (single-part) or on the Update calls before a Final
            if src is None:
                for o2 in reversed(plan["tasks"][x[0]]["ops"][max(0, x[1] - 6):x[1]]):
                    if isinstance(o2.get("in"), dict) and o2.get("damaged"): src = o2["in"]; break
            v["damage_kind"] = None if src is None else "trunc" if "trunc" in src else "flip" if "flip" in src else None
        m_ = op.get("mech") if isinstance(op.get("mech"), dict) else None
        if m_ and m_.get("m") == K.CKM_AES_GCM and len(m_.get("p", "")) >= 96:
            v["gcm_tag_bits"] = int.from_bytes(bytes.fromhex(m_["p"][80:96]), "little")
        v["crypto_differs"] = ("ossl" in ca) != ("ossl" in cb.split(" fed")[0]) or " fed with" in cb
        v["store_differs"] = ca.split("/")[0] != cb.split("/")[0]
    return v

def describe0(plan, x, y, ca, cb):
    """violation for the first differing op of two canonical histories"""
    if x is None or y is None:
        return _v("C20.length", "%s and %s executed a different number of calls" % (ca, cb), call=None, target="%s|%s" % (ca, cb), manifestation="length")
    tid, k, f, da = x; db = y[3]
    op = plan["tasks"][tid]["ops"][k]
    mn = op.get("mn") or (K.name("CKM", op["mech"]["m"]) if isinstance(op.get("mech"), dict) else None)
    if da.get("rv") != db.get("rv") or da.get("final_rv") != db.get("final_rv"):
        return _v("C20.return_code", "%s%s returns %s under %s and %s under %s" % (f, " (%s)" % mn if mn else "", K.rvname(da.get("rv")), ca, K.rvname(db.get("rv")), cb), call=f, op=k, mech=mn, target="%s|%s" % (ca, cb), rv_a=K.rvname(da.get("rv")), rv_b=K.rvname(db.get("rv")),
                  manifestation="%s|%s|%s" % (mn, K.rvname(da.get("rv")), K.rvname(db.get("rv"))), damaged=bool(op.get("damaged")))
    if "attrs" in da or "attrs" in db or "objs" in da:
        diff = []
        if "attrs" in da:
            for t in sorted(set(da.get("attrs", {})) | set(db.get("attrs", {})), key=int):
                if da["attrs"].get(t) != db.get("attrs", {}).get(t): diff.append((K.name("CKA", int(t)), da["attrs"].get(t), db.get("attrs", {}).get(t)))
        else:
            sa, sb = set(da.get("objs", [])), set(db.get("objs", []))
            for j in sorted(sa ^ sb)[:2]:
                ref, at = json.loads(j)
                other = [json.loads(z_) for z_ in (sb if j in sa else sa) if json.loads(z_)[0] == ref]
                if other:
                    for t in sorted(set(at) | set(other[0][1]), key=int):
                        if at.get(t) != other[0][1].get(t): diff.append((K.name("CKA", int(t)), at.get(t) if j in sa else other[0][1].get(t), other[0][1].get(t) if j in sa else at.get(t)))
                else: diff.append(("object " + ref, "present" if j in sa else "absent", "absent" if j in sa else "present"))
        if diff:
            a0 = diff[0]
            return _v("C20.attribute", "%s: %s reads %s under %s and %s under %s" % (f + ("(%s)" % op.get("o") if op.get("o") else ""), a0[0], json.dumps(a0[1])[:80], ca, json.dumps(a0[2])[:80], cb), call=f, op=k, attr=a0[0], target="%s|%s" % (ca, cb), manifestation=a0[0])
    if da.get("ids") != db.get("ids"):
        return _v("C20.search", "%s returns %s under %s and %s under %s" % (f, da.get("ids"), ca, db.get("ids"), cb), call=f, op=k, target="%s|%s" % (ca, cb), manifestation="search")
    if da.get("out") != db.get("out") or da.get("len") != db.get("len") or da.get("total") != db.get("total"):
        if "total" in da or "total" in db: da = dict(da, out=da.get("total"), len=len(da.get("total") or "") // 2); db = dict(db, out=db.get("total"), len=len(db.get("total") or "") // 2)
        return _v("C20.output", "%s%s: output %s... (%s bytes) under %s, %s... (%s bytes) under %s" % (f, " (%s)" % mn if mn else "", str(da.get("out"))[:32], da.get("len"), ca, str(db.get("out"))[:32], db.get("len"), cb), call=f, op=k, mech=mn, target="%s|%s" % (ca, cb), manifestation="%s|output" % mn)
    keys = [kk for kk in sorted(set(da) | set(db)) if da.get(kk) != db.get(kk)]
    return _v("C20.other", "%s: %s differ: %s under %s, %s under %s" % (f, keys, json.dumps({kk: da.get(kk) for kk in keys})[:120], ca, json.dumps({kk: db.get(kk) for kk in keys})[:120], cb), call=f, op=k, target="%s|%s" % (ca, cb), manifestation="|".join(keys))

def check(plan, r):
    viols = []; cov = set(); stats = {}
    def st(k, n=1): stats[k] = stats.get(k, 0) + n
    aux = r.aux.get("c20")
    if not aux:
        r.aux["c20cov"] = (cov, stats); return [{"class": "sim.oracle_exception", "msg": "C20 needs its own runner", "sim_failure": True}]
    runs, cross = aux["runs"], aux["cross"]
    dead = {k: rr for k, rr in runs.items() if rr.died}
    if dead and len(dead) < len(runs):
        for k, rr in dead.items():
            viols.append(_v("C20.died", "under %s the run ended abnormally (%s) while other configurations completed" % (k, rr.why()[:200]), call=None, target=k, manifestation="died"))
    ref = "file/ossl"
    if ref in dead:
        r.aux["c20cov"] = (cov, stats); return viols
    cref = canon(plan, runs[ref])
    for tid, k, f, d in cref:
        op = plan["tasks"][tid]["ops"][k]
        st("calls_compared")
        if "attrs" in d or "objs" in d: st("attr_reads_compared")
        if "out" in d: st("outputs_compared_deterministic")
        if d.get("rv") not in (0, None): st("error_codes_compared")
        if op.get("mp"): st("multipart_compared")
        if f == "@restart": st("restart_compared")
        if f == "@start" and k > 0: st("coldcopy_compared")
        mn = op.get("mn") or (K.name("CKM", op["mech"]["m"]) if isinstance(op.get("mech"), dict) else None)
        if f.startswith("C_"): cov.add("%s|%s|%s" % (f, mn, K.rvname(d.get("rv"))))
    for k, rr in runs.items():
        if k == ref or k in dead: continue
        st("db_backend_runs" if k.startswith("db/") else "botan_runs")
        fd = first_diff(cref, canon(plan, rr))
        if fd: viols.append(describe(plan, fd[0], fd[1], ref, k))
    for name, rr in cross.items():
        cons, prod = name.split("<-")
        if rr.died:
            viols.append(_v("C20.died", "%s fed with the outputs of %s ended abnormally (%s)" % (cons, prod, rr.why()[:200]), call=None, target=name, manifestation="died")); continue
        own = canon(plan, runs[cons]); fed = canon(plan, rr)
        for x, y in zip(own, fed):
            tid, k, f, da = x; op = plan["tasks"][tid]["ops"][k]
            if op.get("consumer") or f == "C_UnwrapKey":
                st("cross_consumers_compared")
                if any(o2.get("rand") for o2 in plan["tasks"][tid]["ops"][max(0, k - 8):k] if o2.get("mn") == op.get("mn")): st("randomised_outputs_cross_checked")
        fd = first_diff(own, fed)
        if fd:
            v = describe(plan, fd[0], fd[1], cons, "%s fed with the outputs of %s" % (cons, prod))
            v["class"] = "C20.cross"; v["target"] = name
            viols.append(v)
    r.aux["c20cov"] = (cov, stats)
    seen = set(); out = []
    for v in viols:
        key = (v["class"], v.get("call"), v.get("mech"), v.get("attr"), v.get("target"))
        if key in seen: continue
        seen.add(key); out.append(v)
    return out[:8]

def cover(plan, r):
    cov, stats = r.aux.get("c20cov", (set(), {}))
    return {"keys": sorted(cov), "nontrivial": stats.get("calls_compared", 0) > 0 and (stats.get("db_backend_runs", 0) + stats.get("botan_runs", 0)) > 0, "stats": stats}

TECHNIQUE = "deterministic simulation (differential): one seeded plan incl. restarts executed under four store/crypto configurations of the simulator with the same seeded RNG seam, canonical histories compared, outputs cross-fed between crypto back ends"
CLAIM = ("Seeded exploration: each generated call sequence (restarts and a cold second library copy included) is executed by the real library under file/OpenSSL, db/OpenSSL, file/Botan and db/Botan inside the simulator "
         "(same plan, same seed, same RNG seam; the Botan build links the repo's Botan* sources, the SQLite store runs on a real scratch directory), and the canonical histories - return codes, attribute read-outs, "
         "search results, outputs of deterministic mechanisms - must be identical; blobs made under one crypto back end are decrypted / verified / unwrapped under the other. No faults, crashes or schedules are involved "
         "in this property; the simulator contributes determinism and the restart/cold-copy machinery. Evidence, not proof.")
NOTE = ("Stubs: BotanRNG is replaced by the simulator's PRNG (sim/alt/BotanRNG.cpp); SQLite and the kernel below it are real (pass-through). Not compared: values of generated keys, slot ids, serial numbers, "
        "free-memory fields. Faults and crashes below SQLite are not injected.")

COMPONENTS = {"real": ["src/lib/** of /repo in two builds: OpenSSL glue (OSSL*) and Botan glue (Botan*), each with both object stores (ObjectFile/OSToken and DBObject/DBToken/DB)", "OpenSSL libcrypto 3", "Botan 2.19", "SQLite 3 and the kernel below it (db configurations run on a real scratch directory through the pass-through path)", "glibc stdio buffering"],
              "stub": ["kernel VFS for the file-store configurations (simfs)", "RNG: seeded RAND_METHOD (OpenSSL build) / the same PRNG behind BotanRNG (sim/alt/BotanRNG.cpp replaces src/lib/crypto/BotanRNG.cpp in the botan build)", "scheduler / process boundary (symbol-renamed library copies for the cold second copy)", "time(), getpid(), syslog(), exit()"]}
ASSUMPTIONS = ["per-call chunking of multi-part operations is not compared (PKCS#11 leaves it open): the concatenated output of each operation and every return code are", "what a FAILED multi-part operation handed out before failing is not compared", "values of generated keys, serial numbers, slot ids and free-memory fields are masked"]
