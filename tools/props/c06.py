"""C06 - private objects are encrypted at rest under a key only a PIN unlocks; files are owner-only (DESIGN 4, C06)."""
import p11const as K
from p11const import A_bool, A_ulong, A_bytes
from store import StoreW, StoreOracle, fmt
from gen import RW
from model import World, ref_of_label, tbool
import hist, objs, decoder
from props import c05

LEVEL = "exploration"
QUICK_RUNS = 1200
QUICK_BUDGET_S = 90
THOROUGH_RUNS = 10 ** 7
RULE = ("seeded store histories biased to private objects through every storing path (C_CreateObject, C_GenerateKey(Pair), C_UnwrapKey, C_DeriveKey, C_CopyObject with public-to-private upgrade, "
        "C_SetAttributeValue) with PIN changes (C_SetPIN/C_InitPIN) and token re-initialisation in between, under objectstore.umask in {0077,0027,0022,0000,0007, and the same octal values written without leading zero: 27,77,7,17,022,0} and process umasks {022,077,000,027}. "
        "The simulator scans the written file after EVERY simulated write(2) for every registered private byte-string value (unique, >= 12 bytes) and for the per-token master key and mask (known through "
        "the RNG seam); at disk dumps the independent decoder must open the master key with the SO PIN and with the user PIN (same key), decrypt every private value to what the API returned, and all IVs on disk "
        "must be pairwise distinct; every file/directory creation is checked against the configured umask. Distinct+non-trivial: (storing path, object kind, umask, PIN-history class).")
PROBES = ["db_backend_runs", "reconfigured", "mthread_runs", "writes_scanned", "private_values_registered", "masterkey_registered", "disk_decoded", "ivs_compared", "modes_checked", "pin_changed_then_decoded", "reinit_then_decoded", "upgrade_copy", "private_value_decrypted", "umask_nondefault"]
DEATH_IS_VIOLATION = ()

W = {"open": 3, "login": 4, "logout": 1, "create": 26, "gen": 8, "genpair": 3, "unwrap": 5, "derive": 5, "copy": 6, "upgrade": 6, "setattr": 14, "destroy": 5, "restart": 2, "reconf": 2, "disk": 7, "setpin": 5, "reinit": 1.5}

class GW(StoreW):
    def __init__(self, *a, **kw):
        super().__init__(*a, **kw)
        self.secrets = []
        self.pinchanges = 0; self.reinits = 0
        # a key unwrapped or derived from a private key into a PUBLIC object is legitimately stored in the clear (the application asked for it);
        # to keep "registered values belong to private objects only" true, such keys are made private here
        self.private_follows_source = True

    # pool keys reserved for private objects, so that their private components belong to private objects only
    PRIVATE_POOL = {"rsa_priv": 3, "ec_priv": 2}
    NEVER = (K.CKA_EC_PARAMS, K.CKA_PUBLIC_EXPONENT, K.CKA_MODULUS, K.CKA_EC_POINT, K.CKA_ALLOWED_MECHANISMS)   # public halves / shared between objects by construction
    def register(self, tmpl, private):
        if not private: return
        for e in tmpl:
            if e[1] == "x" and len(e[2]) >= 24 and e[0] not in self.NEVER:
                if e[2] not in self.secrets: self.secrets.append(e[2])

    def s_create(self, tid=0, pid=1, **kw):
        kw.setdefault("private", self.r.random() < 0.8)
        kw.setdefault("token", self.r.random() < 0.8)
        kind = kw.get("kind") or self.r.choice(self.kinds); kw["kind"] = kind
        if kind in self.PRIVATE_POOL:
            kw["flags"] = {"pool": self.PRIVATE_POOL[kind]} if kw["private"] else {"pool": self.r.randrange(self.PRIVATE_POOL[kind])}
        elif kind in ("rsa_pub", "ec_pub"):
            kw["flags"] = {"pool": self.r.randrange(3 if kind == "rsa_pub" else 2)}
        n0 = len(self.ops[tid])
        ref = super().s_create(tid, pid, **kw)
        for op in self.ops[tid][n0:]:
            if op.get("f") == "C_CreateObject": self.register(op["tmpl"], tbool(op["tmpl"], K.CKA_PRIVATE))
        return ref

    def s_gen(self, tid=0, pid=1):
        n0 = len(self.ops[tid])
        ref = super().s_gen(tid, pid)
        for op in self.ops[tid][n0:]:
            if op.get("f") == "C_GenerateKey" and tbool(op["tmpl"], K.CKA_PRIVATE) and tbool(op["tmpl"], K.CKA_TOKEN):
                from model import tulong
                n = tulong(op["tmpl"], K.CKA_VALUE_LEN, 24)   # DES3 has no CKA_VALUE_LEN: 24 bytes
                # the key value is the first draw of exactly the key length (later 16-byte draws are IVs and the file UUID, which are public)
                op["rng"] = {"min": n, "max": n, "first": True, "disk": True, "label": "generated:" + op["out"]}
        return ref

    def s_setattr(self, tid=0, pid=1, obj=None):
        n0 = len(self.ops[tid])
        x = super().s_setattr(tid, pid, obj)
        for op in self.ops[tid][n0:]:
            if op.get("f") == "C_SetAttributeValue":
                o = self.w.objs.get(op["o"])
                if o is not None and o.private: self.register(op["tmpl"], True)
        return x

    def s_upgrade(self, tid=0, pid=1):
        """copy a public object to a private one, then destroy the public source: afterwards the value must not be on disk in the clear"""
        r = self.r
        cands = [o for o in self.live_objs(pid) if not o.private and o.token and o.ref in self.P(pid).h2obj.values() and self.P(pid).login.get(o.tok) == "U"]
        if not cands or len(self.live_objs(pid)) >= self.max_objs: return False
        o = r.choice(cands)
        ss = [s for s in self.live_sessions(pid, o.tok) if s.rw]
        if not ss: return False
        s = r.choice(ss); ref = self.new_obj()
        self.emit({"f": "C_CopyObject", "s": s.ref, "o": o.ref, "tmpl": [A_bytes(K.CKA_LABEL, objs.label(ref)), A_bool(K.CKA_TOKEN, True), A_bool(K.CKA_PRIVATE, True)], "out": ref, "upgrade": True}, tid)
        if o.ref in self.info: self.info[ref] = self.info[o.ref]
        self.after_create(tid, pid, s.ref, ref)
        self.emit({"f": "C_DestroyObject", "s": s.ref, "o": o.ref}, tid)
        # from here on the source's long values belong to a private object only
        src_ops = [op for op in self.ops[tid] if op.get("out") == o.ref and op.get("f") == "C_CreateObject"]
        vals = [e[2] for op in src_ops for e in op["tmpl"] if e[1] == "x" and len(e[2]) >= 24 and e[0] in (K.CKA_VALUE, K.CKA_PRIVATE_EXPONENT, K.CKA_PRIME_1, K.CKA_PRIME_2)]
        if any(x.ref != o.ref and x.alive and not x.private and self.info.get(x.ref) is self.info.get(o.ref) for x in self.w.objs.values()):
            vals = []     # another PUBLIC copy of the same source is still alive: the value legitimately stays on disk in the clear
        if self.info.get(o.ref, {}).get("kind") not in ("aes", "generic", "des3", "data", "cert"):
            vals = []     # key-pool values (RSA/EC private parts) are shared by every object made from the same pool entry, public ones included: not "only in a private object"
        for v in vals:
            self.emit({"act": "secret", "hex": v, "label": "upgraded:" + ref}, tid)
        self.emit({"act": "disk", "data": True}, tid)
        return True

    def s_setpin(self, tid=0, pid=1):
        r = self.r
        ss = [s for s in self.live_sessions(pid) if s.rw]
        if not ss: return False
        s = r.choice(ss); tk = self.w.toks[s.tok]; st = self.P(pid).login.get(s.tok)
        if r.random() < 0.3 and st != "S":
            # SO re-initialises the user PIN
            if st: self.emit({"f": "C_Logout", "s": s.ref}, tid)
            if any(not z.rw for z in self.w.sessions_on(pid, s.tok)): return True
            self.emit({"f": "C_Login", "s": s.ref, "user": K.CKU_SO, "pin": tk.so_pin.hex()}, tid)
            self.emit({"f": "C_InitPIN", "s": s.ref, "pin": self.pin().hex()}, tid)
            self.emit({"f": "C_Logout", "s": s.ref}, tid)
            self.emit({"f": "C_Login", "s": s.ref, "user": K.CKU_USER, "pin": self.w.toks[s.tok].user_pin.hex()}, tid)
        else:
            cur = tk.so_pin if st == "S" else tk.user_pin
            if cur is None: return False
            self.emit({"f": "C_SetPIN", "s": s.ref, "old": cur.hex(), "new": self.pin().hex()}, tid)
        self.pinchanges += 1
        self.emit({"act": "disk", "data": True}, tid)
        return True

    def s_reconf(self, tid=0, pid=1):
        """C_Finalize, a CHANGED configuration file (another objectstore.umask, or the line removed = the owner-only default), C_Initialize: what the first
        configuration said must not outlive it"""
        r = self.r
        v = r.choice([None, None, "0077", "0027", "0007", "0000", "22"])
        self.emit({"act": "restart", "conf": {"objectstore.umask": v}}, tid)
        self.reconfs = getattr(self, "reconfs", 0) + 1
        return True

    def s_reinit(self, tid=0, pid=1):
        r = self.r; t = r.choice(self.toks()); tk = self.w.toks[t]
        for s in self.live_sessions(pid, t): self.emit({"f": "C_CloseSession", "s": s.ref}, tid)
        self.emit({"f": "C_InitToken", "slot": t, "pin": tk.so_pin.hex(), "label": t, "out": t}, tid)
        s = self.new_sess()
        self.emit({"f": "C_OpenSession", "slot": t, "flags": RW, "out": s}, tid)
        self.emit({"f": "C_Login", "s": s, "user": K.CKU_SO, "pin": tk.so_pin.hex()}, tid)
        self.emit({"f": "C_InitPIN", "s": s, "pin": self.pin().hex()}, tid)
        self.emit({"f": "C_Logout", "s": s}, tid)
        self.emit({"f": "C_Login", "s": s, "user": K.CKU_USER, "pin": self.w.toks[t].user_pin.hex()}, tid)
        self.reinits += 1
        self.emit({"act": "disk", "data": True}, tid)
        return True

def gen_mthread(seed, tier, index):
    """two threads of one process (locking enabled): one stores PRIVATE token keys (C_UnwrapKey of a blob whose plaintext the harness knows, C_CreateObject of
    known values) while the other logs the user out and in again. A call that loses the race may fail or store nothing - the key bytes must not reach the disk
    in the clear. Only the disk monitor is judged in these runs (the sequential model does not apply)."""
    from gen import G
    import mechs
    g = G(seed, "C06", profile="mthread"); r = g.r
    g.knobs["policy"] = "park" if index % 40 != 7 else "io"; g.knobs["switch_p"] = r.choice([0.05, 0.1, 0.2]); g.knobs["short_io"] = False
    g.task(0, 1); g.task(1, 1)
    so = g.pin(); up = g.pin()
    g.emit({"act": "start", "locking": "callbacks"}, 0)
    tok = g.setup_token(0, so_pin=so, upin=up)
    sa = g.new_sess(); sb = g.new_sess()
    g.emit({"f": "C_OpenSession", "slot": tok, "flags": RW, "out": sa}, 0); g.emit({"f": "C_OpenSession", "slot": tok, "flags": RW, "out": sb}, 0)
    g.emit({"f": "C_Login", "s": sa, "user": K.CKU_USER, "pin": up.hex()}, 0)
    wk = g.new_obj(); wt, _ = objs.make("aes", wk, r, token=True, private=False, flags={"sensitive": False, "extractable": True, "wrap": True, "unwrap": True})
    g.emit({"f": "C_CreateObject", "s": sa, "tmpl": wt, "out": wk}, 0)
    secrets = []; blobs = []
    for i in range(r.choice([1, 2])):
        k = g.new_obj(); kt, info = objs.make("aes", k, r, token=False, private=False, flags={"sensitive": False, "extractable": True})
        val = [e for e in kt if e[0] == K.CKA_VALUE][0][2]; secrets.append(val)
        g.emit({"f": "C_CreateObject", "s": sa, "tmpl": kt, "out": k}, 0)
        g.emit({"f": "C_WrapKey", "s": sa, "mech": mechs.simple(K.CKM_AES_KEY_WRAP), "wkey": wk, "key": k, "outcap": 256, "save": "w%d" % i}, 0); blobs.append("w%d" % i)
    for t in (0, 1): g.emit({"act": "barrier"}, t)
    for i in range(r.choice([4, 6, 8])):
        new = g.new_obj()
        if r.random() < 0.7:
            tm = [A_ulong(K.CKA_CLASS, K.CKO_SECRET_KEY), A_ulong(K.CKA_KEY_TYPE, K.CKK_AES), A_bool(K.CKA_TOKEN, True), A_bool(K.CKA_PRIVATE, True), A_bytes(K.CKA_LABEL, objs.label(new)), A_bool(K.CKA_SENSITIVE, False), A_bool(K.CKA_EXTRACTABLE, True)]
            g.emit({"f": "C_UnwrapKey", "s": sa, "mech": mechs.simple(K.CKM_AES_KEY_WRAP), "ukey": wk, "in": {"from": r.choice(blobs)}, "tmpl": tm, "out": new, "park_me": True}, 0, ok=False)
        else:
            v = objs.rnd(r, r.choice([24, 40])); secrets.append(v.hex())
            g.emit({"f": "C_CreateObject", "s": sa, "tmpl": [A_ulong(K.CKA_CLASS, K.CKO_DATA), A_bool(K.CKA_TOKEN, True), A_bool(K.CKA_PRIVATE, True), A_bytes(K.CKA_LABEL, objs.label(new)), A_bytes(K.CKA_VALUE, v)], "out": new, "park_me": True}, 0, ok=False)
        if r.random() < 0.5: g.emit({"f": "C_Login", "s": sa, "user": K.CKU_USER, "pin": up.hex()}, 0, ok=False)
    for i in range(r.choice([2, 3, 4])):
        g.emit({"f": "C_Logout", "s": sb}, 1, ok=False); g.emit({"f": "C_Login", "s": sb, "user": K.CKU_USER, "pin": up.hex()}, 1, ok=False)
    for t in (0, 1): g.emit({"act": "barrier"}, t)
    g.emit({"act": "disk", "data": True}, 0)
    g.extra["stratum"] = "mthread"
    return g.plan(disk_secrets=secrets)

def prepare(plan, z):
    if plan.get("stratum") == "mthread" and plan["knobs"].get("policy") == "park" and plan["knobs"].get("parks") is None:
        from props import c18
        return c18.prepare_park(plan, z)
    return plan

def gen(seed, tier, index):
    if index % 10 == 7: return gen_mthread(seed, tier, index)
    g = GW(seed, "C06", big=(index % 7 == 0))
    r = g.r
    # softhsm2.conf(5): the value is octal - with or without a leading zero
    g.knobs["conf"]["objectstore.umask"] = ["0077", "0027", "0022", "0000", "0077", "0007", "27", "77", "7", "17", "022", "0"][index % 12]
    if index % 11 == 10: g.knobs["conf"].pop("objectstore.umask")   # default: owner-only
    if index % 5 == 3: g.knobs["conf"]["objectstore.backend"] = "db"   # "for both storage backends": SQLite on the simulated disk - database and journal are scanned after every write like any other file
    g.begin()
    for t in g.toks():
        g.s_open(tok=t, rw=True); g.s_login(user=K.CKU_USER, tok=t)
    n = r.choice([6, 10, 16, 24]) if tier == "quick" else r.choice([10, 20, 40])
    for i in range(n):
        name = g.step(W)
        if name in ("restart", "reconf"): g.relogin_all()
    g.s_disk()
    return g.plan(disk_secrets=g.secrets)

def _v(cls, msg, **kw):
    d = {"class": cls, "msg": msg}; d.update(kw); return d

def check(plan, r):
    viols = []; cov = set(); stats = {}
    def st(k, n=1): stats[k] = stats.get(k, 0) + n
    w = World(); so = StoreOracle(); pids = hist.pid_track(plan)
    conf_umask = int(plan["knobs"].get("conf", {}).get("objectstore.umask", "0077"), 8)
    if conf_umask != 0o077: st("umask_nondefault")
    # the configuration can change at a restart: umask in force while op k runs (the restart op itself already runs under the new one)
    umask_at = []; cur_um = conf_umask
    for op in plan["tasks"][0]["ops"]:
        if op.get("act") == "restart" and "conf" in op and "objectstore.umask" in op["conf"]:
            v_ = op["conf"]["objectstore.umask"]; cur_um = 0o077 if v_ is None else int(v_, 8); st("reconfigured")
        umask_at.append(cur_um)
    st("private_values_registered", len(plan.get("disk_secrets", [])))
    st("writes_scanned", (r.result or {}).get("fsops", {}).get("write", 0))
    # (i) plaintext / master key on disk at any write instant
    ops0 = [op for t in plan["tasks"] for op in t["ops"]]
    def upgrade_intact(label):
        """an 'upgraded:<copy>' secret only means something while the plan still holds the upgrading copy AND the destruction of its public source (the minimiser may have dropped them)"""
        if not label.startswith("upgraded:"): return True
        cp = [op for op in ops0 if op.get("f") == "C_CopyObject" and op.get("out") == label[9:] and op.get("upgrade")]
        if not cp or not any(op.get("f") == "C_DestroyObject" and op.get("o") == cp[0].get("o") for op in ops0): return False
        # "belongs only to the private copy" must be true by the plan itself: no other copy of the same source (or of its copies) that stays public
        fam = {cp[0].get("o")}
        for op in ops0:
            if op.get("f") == "C_CopyObject" and op.get("o") in fam and op is not cp[0]:
                pv = [e for e in op.get("tmpl", []) if e[0] == K.CKA_PRIVATE]
                if not (pv and pv[0][2] == "01"): return False
                fam.add(op.get("out"))
        return True
    if plan.get("stratum") == "mthread":
        st("mthread_runs"); st("mthread_switches", sum(((r.result or {}).get("switches") or {}).values()))
        for e in hist.mons(r, "plaintext_on_disk"):
            viols.append(_v("C06.plaintext_on_disk", "after a write of call #%s (thread %s) the file %s contains %s in the clear - another thread logged the user out while the object was being stored" % (e.get("op"), e.get("t"), e["d"]["path"].split("/")[-1], describe_secret(e["d"]["secret"])),
                            call=opname_at(plan, e), op=e.get("op"), secret="plan", threads=True))
        for v in viols: v["backend"] = "file"
        r.aux["c06"] = ({"mthread|%s|sw%d" % (plan["knobs"].get("policy"), min(stats.get("mthread_switches", 0), 20))}, stats)
        return viols[:3]
    for e in hist.mons(r, "plaintext_on_disk"):
        if not upgrade_intact(e["d"].get("secret", "")): continue
        viols.append(_v("C06.plaintext_on_disk", "after a write of call #%s the file %s contains %s in the clear" % (e.get("op"), e["d"]["path"].split("/")[-1], describe_secret(e["d"]["secret"])),
                        call=opname_at(plan, e), op=e.get("op"), secret=e["d"]["secret"].split(":")[0].rstrip("0123456789")))
    # (iv) creation modes
    for e in hist.mons(r, "created"):
        if e["d"].get("by") == "sqlite": continue     # journal files: SQLite gives them the permissions of their database (reproduced by the VFS stub, nothing of the library's code decides it)
        st("modes_checked")
        mode = int(e["d"]["mode"], 8); req = int(e["d"]["req"], 8)
        um = umask_at[e["op"]] if isinstance(e.get("op"), int) and 0 <= e["op"] < len(umask_at) else umask_at[-1] if umask_at else conf_umask
        if e["d"]["path"].startswith("/sim/tokens/") and (req & um & 0o777 or mode & um & 0o777):
            viols.append(_v("C06.mode", "%s %s was created with mode %s (requested %s) although objectstore.umask is %04o%s" % (e["d"]["kind"], e["d"]["path"].split("/")[-1], e["d"]["mode"], e["d"]["req"], um, " (configuration changed at a restart)" if um != conf_umask else ""),
                            call=opname_at(plan, e), op=e.get("op"), kind=e["d"]["kind"], role=role(e["d"]["path"])))
    ivs = {}   # iv -> (file, attr)
    pinchanged = False; reinit = False
    for tid, k, op, ret in hist.walk(plan, r):
        pid = pids[tid][k]
        f = hist.opname(op); rv = ret.get("rv"); ok = rv == 0
        w.apply(pid, op, ret)
        if ok and f in ("C_SetPIN", "C_InitPIN") and any(o.alive and o.private and o.token for o in w.objs.values()): pinchanged = True
        if ok and f == "C_InitToken" and k > 3: reinit = True
        if ok and f == "C_InitToken" and ret.get("rng"): st("masterkey_registered")
        if ok and f in ("C_CreateObject", "C_GenerateKey", "C_UnwrapKey", "C_DeriveKey"):
            so.on_create(op["out"], op.get("tmpl"))
            o = w.objs.get(op["out"])
            if o is not None and o.private: cov.add("%s|%s|umask%o|pin%d|re%d" % (f, o.klass, conf_umask, pinchanged, reinit))
        elif ok and f == "C_GenerateKeyPair":
            so.on_create(op["out"][0], op.get("pub")); so.on_create(op["out"][1], op.get("priv"))
            cov.add("genpair|umask%o|pin%d" % (conf_umask, pinchanged))
        elif ok and f == "C_CopyObject" and isinstance(op.get("o"), str):
            so.on_create(op["out"], op.get("tmpl"), src=op["o"])
            if op.get("upgrade"): st("upgrade_copy"); cov.add("upgrade|umask%o|pin%d" % (conf_umask, pinchanged))
        elif ok and f == "C_SetAttributeValue" and isinstance(op.get("o"), str):
            so.on_set(op["o"], op.get("tmpl"))
            o = w.objs.get(op["o"])
            if o is not None and o.private: cov.add("set|umask%o|pin%d" % (conf_umask, pinchanged))
        elif not ok and f == "C_SetAttributeValue" and isinstance(op.get("o"), str):
            so.unreadable.setdefault(op["o"], set()).update(x[0] for x in op.get("tmpl", []))
        elif f == "@readattrs" and op.get("pin") and isinstance(op.get("o"), str):
            so.pin(op["o"], ret.get("attrs", {}))
        elif f == "@disk":
            tree = ret.get("tree", {})
            if pinchanged: st("pin_changed_then_decoded")
            if reinit: st("reinit_then_decoded")
            # (iii) decode with both PINs + values equal to the API's
            for v in c05.check_disk(tree, w, so, set(), st, k, "same"):
                v["class"] = v["class"].replace("C05.", "C06.decode_")
                viols.append(v)
            # wrong PIN must not open the key; (ii) IVs pairwise distinct
            toks = decoder.decode_tree(tree)
            for dname, td in toks.items():
                tref = ref_of_label(td.label) if td.label else None
                tk = w.toks.get(tref)
                if tk is None: continue
                for blob, name in ((td.so_blob, "SO"), (td.user_blob, "user")):
                    if blob and len(blob) >= 24:
                        note_iv(ivs, blob[8:24], (dname, "pinblob-" + name, blob[24:40]), viols, k)
                        if decoder.unwrap_master_key(blob, b"not-the-pin") is not None:
                            viols.append(_v("C06.key_not_pin_bound", "the %s PIN blob of token %s opens with a wrong PIN" % (name, tref), call="disk", op=k))
                for fname, parsed in td.objects.items():
                    if isinstance(parsed, Exception): continue
                    gen_, attrs = parsed
                    if not attrs.get(K.CKA_PRIVATE, ("b", True))[1]: continue
                    for t_, (kind, val) in attrs.items():
                        if kind == "x" and len(val) >= 32:
                            st("ivs_compared")
                            note_iv(ivs, val[:16], (fname, t_, val[16:32]), viols, k)
    backend = plan["knobs"].get("conf", {}).get("objectstore.backend", "file")
    if backend == "db": st("db_backend_runs")
    for v in viols: v["backend"] = backend
    r.aux["c06"] = (cov, stats)
    return viols[:6]

def note_iv(ivs, iv, who, viols, k):
    prev = ivs.get(iv)
    if prev is None:
        ivs[iv] = who
    elif prev[2] != who[2]:
        # the same IV in front of a DIFFERENT ciphertext (an identical blob is a copied blob, e.g. C_CopyObject private -> private)
        viols.append(_v("C06.iv_reuse", "IV %s is used for %s/%s and again for %s/%s" % (iv.hex(), prev[0][:13], K.name("CKA", prev[1]) if isinstance(prev[1], int) else prev[1], who[0][:13], K.name("CKA", who[1]) if isinstance(who[1], int) else who[1]), call="disk", op=k))

def role(path):
    n = path.split("/")[-1]
    return "token.object" if n == "token.object" else "lock" if n.endswith(".lock") else "object" if n.endswith(".object") else "generation" if n == "generation" else "directory" if "." not in n else "other"

def describe_secret(s):
    if s.startswith("mk"): return "the token's master key (or its in-memory mask)"
    if s.startswith("plan"): return "a byte-string value of a private object (registered value #%s)" % s[4:]
    if s.startswith("generated:"): return "the generated key value of private object %s" % s[10:]
    if s.startswith("upgraded:"): return "a value that now belongs only to private object %s (public source destroyed)" % s[9:]
    return s

def opname_at(plan, e):
    try: return hist.opname(plan["tasks"][e["t"]]["ops"][e["op"]])
    except Exception: return "?"

def cover(plan, r):
    cov, stats = r.aux.get("c06", (set(), {}))
    return {"keys": sorted(cov), "nontrivial": (stats.get("private_value_decrypted", 0) > 0 and stats.get("writes_scanned", 0) > 0) or stats.get("mthread_switches", 0) > 0, "stats": stats}

TECHNIQUE = "deterministic simulation: invariant monitor over the simulated disk after every write(2) (registered plaintexts, master key via the RNG seam, creation modes) plus independent decryption of disk dumps"
CLAIM = ("Seeded exploration with an always-on disk invariant: because the simulator owns the disk, the content of every file is scanned after each individual write (so also in every state a crash would freeze) "
         "for the plaintext of every private byte-string value and for the master key; an independent decoder must unwrap the master key from the SO blob and the user blob with the model's PINs, decrypt all private "
         "values to what the API returned, and find no IV twice; every create/mkdir is checked against objectstore.umask. PIN changes, re-initialisation and public-to-private copies are part of the histories. Evidence, not proof.")
NOTE = "Trusted: format specification (tools/decoder.py), RNG seam (the master key is recognised as a 32-byte draw during C_InitToken), uniqueness of harness values. Values nested in wrap/unwrap templates are excluded as the property says. Both object stores: every fifth plan runs on the SQLite store over the simulated disk (database and rollback journal are scanned after every write like any other file; modes of files SQLite creates itself come from the VFS stub, which copies the database's mode as the unix VFS does)."
