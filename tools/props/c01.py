"""C01 - private objects are unreachable unless the normal user is logged in (DESIGN 4, C01)."""
import p11const as K
from p11const import A_bool, A_ulong, A_bytes
from workload import OW
from model import World, tbool, tget
import hist, objs, mechs

LEVEL = "exploration"
QUICK_RUNS = 2500
QUICK_BUDGET_S = 80
THOROUGH_RUNS = 10 ** 7
RULE = ("seeded histories over 1-2 tokens with sessions in all five states (RO/RW public, RO/RW user, RW SO), objects of 9 kinds x token/session x "
        "private/public created while the user is logged in, then C_Login/C_Logout/close/close-all/restart interleaved with probes of ~25 entry points "
        "(get/set/copy/destroy, search, Encrypt/Decrypt/Sign/Verify-Init, DigestKey, WrapKey in both key positions, UnwrapKey, DeriveKey in base and second-key "
        "position, create/generate with CKA_PRIVATE/CKA_TOKEN) using live handles, handles kept from before a logout, handles of the OTHER token's logged-in user "
        "(the only case where the per-call access check is the sole guard) and handles found by other sessions. Distinct+non-trivial: (session state, object "
        "private/token, entry point, live/stale handle, outcome class).")
PROBES = ["faults_fired", "neg_probe_after_fault", "db_backend_runs", "default_privacy_checked", "neg_probe", "neg_probe_live_handle", "neg_code_checked", "pos_probe_ok", "ro_write_refused", "private_create_refused", "search_hides_private", "search_shows_private", "so_session_probe", "cross_token_probe", "stale_handle_probe", "output_scanned"]
DEATH_IS_VIOLATION = ()

ENTRY = ["getattr", "setattr", "copy", "destroy", "find", "encinit", "decinit", "signinit", "verifyinit", "digestkey", "wrap_wkey", "wrap_key", "unwrap", "derive_base", "derive_second", "derive_second", "create", "create_default", "create_default", "genkey", "genpair", "copy_priv"]

class GW(OW):
    def key_objs(self, pid, kinds):
        return [o for o in self.w.objs.values() if o.ref in self.info and self.info[o.ref]["kind"] in kinds]

    def s_probe(self, tid=0, pid=1):
        r = self.r
        live = self.live_sessions(pid)
        if not live: return False
        s = r.choice(live)
        allobjs = [o for o in self.w.objs.values()]
        ep = r.choice(ENTRY)
        s_user = self.P(pid).login.get(s.tok) == "U"
        def pick(kinds=None, prefer_private=True):
            # the statement says nothing about a handle of token B used through a logged-in session of token A: not generated
            c = [o for o in allobjs if (kinds is None or self.info.get(o.ref, {}).get("kind") in kinds) and not (s_user and o.tok != s.tok)]
            if not c: return None
            pv = [o for o in c if o.private and o.alive]
            if pv and prefer_private and r.random() < 0.75: return r.choice(pv)
            return r.choice(c)
        new = None
        if ep == "getattr":
            o = pick()
            if not o: return False
            want = r.choice([[[K.CKA_LABEL, 64]], [[K.CKA_VALUE, 512]], [[K.CKA_LABEL, 64], [K.CKA_VALUE, 512]], [[K.CKA_CLASS, 8], [K.CKA_ID, 64]], [[K.CKA_LABEL, None]], [[K.CKA_PRIVATE_EXPONENT, 512], [K.CKA_MODULUS, 512]]])
            self.emit({"f": "C_GetAttributeValue", "s": s.ref, "o": o.ref, "want": want, "probe": "getattr"}, tid)
        elif ep == "setattr":
            o = pick()
            if not o: return False
            self.emit({"f": "C_SetAttributeValue", "s": s.ref, "o": o.ref, "tmpl": [A_bytes(K.CKA_LABEL, objs.label(o.ref, ":p"))], "probe": "setattr"}, tid, ok=False)
        elif ep in ("copy", "copy_priv"):
            o = pick(prefer_private=(ep == "copy"))
            if not o: return False
            new = self.new_obj()
            t = [A_bytes(K.CKA_LABEL, objs.label(new)), A_bool(K.CKA_TOKEN, r.random() < 0.4)]
            if ep == "copy_priv": t.append(A_bool(K.CKA_PRIVATE, True))
            self.emit({"f": "C_CopyObject", "s": s.ref, "o": o.ref, "tmpl": t, "out": new, "probe": ep}, tid, ok=False)
            self.info[new] = self.info.get(o.ref, {"kind": "data", "secret": {}})
        elif ep == "destroy":
            o = pick()
            if not o: return False
            self.emit({"f": "C_DestroyObject", "s": s.ref, "o": o.ref, "probe": "destroy"}, tid, ok=False)
        elif ep == "find":
            self.emit({"act": "find", "s": s.ref, "tmpl": r.choice([[], [], [A_bool(K.CKA_PRIVATE, True)], [A_bool(K.CKA_TOKEN, True)]]), "batches": [], "probe": "find"}, tid)
        elif ep in ("encinit", "decinit", "signinit", "verifyinit"):
            fam = {"encinit": "enc", "decinit": "dec", "signinit": "sign", "verifyinit": "verify"}[ep]
            kinds = {"enc": ["aes", "des3", "rsa_pub"], "dec": ["aes", "des3", "rsa_priv"], "sign": ["aes", "generic", "des3", "rsa_priv", "ec_priv"], "verify": ["aes", "generic", "des3", "rsa_pub", "ec_pub"]}[fam]
            o = pick(kinds)
            if not o: return False
            m = mechs.for_kind(self.info[o.ref]["kind"], fam, r)
            fn = {"enc": "C_EncryptInit", "dec": "C_DecryptInit", "sign": "C_SignInit", "verify": "C_VerifyInit"}[fam]
            self.emit({"f": fn, "s": s.ref, "mech": m, "key": o.ref, "probe": ep}, tid, ok=False)
            # terminate whatever became active so that later probes are not answered CKR_OPERATION_ACTIVE
            data = bytes(16).hex()
            if fam == "enc": self.emit({"f": "C_Encrypt", "s": s.ref, "in": data, "outcap": 600, "fin": True}, tid, ok=False)
            elif fam == "dec": self.emit({"f": "C_Decrypt", "s": s.ref, "in": bytes(128).hex(), "outcap": 600, "fin": True}, tid, ok=False)
            elif fam == "sign": self.emit({"f": "C_Sign", "s": s.ref, "in": data, "outcap": 600, "fin": True}, tid, ok=False)
            else: self.emit({"f": "C_Verify", "s": s.ref, "in": data, "sig": bytes(64).hex(), "fin": True}, tid, ok=False)
        elif ep == "digestkey":
            o = pick(["aes", "generic", "des3"])
            if not o: return False
            self.emit({"f": "C_DigestInit", "s": s.ref, "mech": mechs.simple(K.CKM_SHA256), "fin": True}, tid, ok=False)
            self.emit({"f": "C_DigestKey", "s": s.ref, "key": o.ref, "probe": "digestkey"}, tid, ok=False)
            self.emit({"f": "C_DigestFinal", "s": s.ref, "outcap": 64, "fin": True}, tid, ok=False)
        elif ep in ("wrap_wkey", "wrap_key"):
            wk = pick(["aes"], prefer_private=(ep == "wrap_wkey")); k2 = pick(["aes", "generic"], prefer_private=(ep == "wrap_key"))
            if not wk or not k2: return False
            self.emit({"f": "C_WrapKey", "s": s.ref, "mech": mechs.simple(K.CKM_AES_KEY_WRAP), "wkey": wk.ref, "key": k2.ref, "outcap": 128, "probe": ep}, tid, ok=False)
        elif ep == "unwrap":
            uk = pick(["aes"])
            if not uk: return False
            new = self.new_obj()
            blob = bytes(r.randrange(256) for _ in range(24))
            t = [A_ulong(K.CKA_CLASS, K.CKO_SECRET_KEY), A_ulong(K.CKA_KEY_TYPE, K.CKK_GENERIC_SECRET), A_bool(K.CKA_TOKEN, False), A_bool(K.CKA_PRIVATE, False), A_bytes(K.CKA_LABEL, objs.label(new))]
            self.emit({"f": "C_UnwrapKey", "s": s.ref, "mech": mechs.simple(K.CKM_AES_KEY_WRAP), "ukey": uk.ref, "in": blob.hex(), "tmpl": t, "out": new, "probe": "unwrap"}, tid, ok=False)
            self.info[new] = {"kind": "generic", "secret": {}}
        elif ep in ("derive_base", "derive_second"):
            new = self.new_obj()
            t = [A_ulong(K.CKA_CLASS, K.CKO_SECRET_KEY), A_ulong(K.CKA_KEY_TYPE, K.CKK_GENERIC_SECRET), A_bool(K.CKA_TOKEN, False), A_bool(K.CKA_PRIVATE, False),
                 A_bytes(K.CKA_LABEL, objs.label(new)), A_bool(K.CKA_SENSITIVE, False), A_bool(K.CKA_EXTRACTABLE, True)]
            if ep == "derive_base":
                o = pick(["aes", "generic", "ec_priv"])
                if not o: return False
                kind = self.info[o.ref]["kind"]
                if kind == "aes": m = r.choice([mechs.kdsd(K.CKM_AES_ECB_ENCRYPT_DATA, bytes(range(32))), mechs.kdsd(K.CKM_CONCATENATE_BASE_AND_DATA, b"12345678")])
                elif kind == "generic": m = r.choice([mechs.kdsd(K.CKM_CONCATENATE_BASE_AND_DATA, b"12345678"), mechs.kdsd(K.CKM_CONCATENATE_DATA_AND_BASE, b"abcdefgh")])
                else: m = mechs.ecdh1(bytes.fromhex(objs.POOL["ec"][0]["q"]))
                self.emit({"f": "C_DeriveKey", "s": s.ref, "mech": m, "base": o.ref, "tmpl": t, "out": new, "probe": ep}, tid, ok=False)
            else:
                b = pick(["aes", "generic"], prefer_private=False); o = pick(["aes", "generic"])
                if not b or not o: return False
                self.emit({"f": "C_DeriveKey", "s": s.ref, "mech": mechs.concat_key(o.ref), "base": b.ref, "tmpl": t, "out": new, "probe": ep, "second": o.ref}, tid, ok=False)
            self.info[new] = {"kind": "generic", "secret": {}}
        elif ep == "create":
            return bool(self.s_create(tid, pid, sess=s))
        elif ep == "create_default":
            # CKA_PRIVATE left to the library's default, every object class: whatever the default is, an object created through a session that is no user
            # session must not be private (the creating session reads CKA_PRIVATE back)
            ref = self.new_obj(); kind = r.choice(list(objs.KINDS) + ["dsa_params", "dh_params", "dsa_params", "dh_params"])
            tm, info = objs.make(kind, ref, r, token=r.random() < 0.5, private=False, flags={"omit_private": True}); self.info[ref] = info
            self.emit({"f": "C_CreateObject", "s": s.ref, "tmpl": tm, "out": ref, "probe": "create_default", "omit_private": True}, tid, ok=False)
            self.emit({"act": "readattrs", "s": s.ref, "o": ref, "types": [K.CKA_PRIVATE, K.CKA_LABEL], "after_default_create": ref}, tid)
        elif ep == "genkey":
            new = self.new_obj()
            t = [A_bool(K.CKA_TOKEN, r.random() < 0.5), A_bool(K.CKA_PRIVATE, r.random() < 0.6), A_bytes(K.CKA_LABEL, objs.label(new)), A_ulong(K.CKA_VALUE_LEN, 16),
                 A_bool(K.CKA_SENSITIVE, False), A_bool(K.CKA_EXTRACTABLE, True), A_bool(K.CKA_ENCRYPT, True), A_bool(K.CKA_DECRYPT, True), A_bool(K.CKA_SIGN, True), A_bool(K.CKA_VERIFY, True), A_bool(K.CKA_WRAP, True), A_bool(K.CKA_UNWRAP, True), A_bool(K.CKA_DERIVE, True)]
            ok = self.can_create(pid, s, tbool(t, K.CKA_TOKEN), tbool(t, K.CKA_PRIVATE))
            self.emit({"f": "C_GenerateKey", "s": s.ref, "mech": mechs.simple(K.CKM_AES_KEY_GEN), "tmpl": t, "out": new, "probe": "genkey"}, tid, ok=ok)
            self.info[new] = {"kind": "aes", "secret": {}}
        elif ep == "genpair":
            if r.random() < 0.3: return False
            n1 = self.new_obj(); n2 = self.new_obj()
            tok = r.random() < 0.5; pv = r.random() < 0.6
            tokv = tok if r.random() < 0.5 else (not tok)      # the two halves of a pair may differ in CKA_TOKEN: each half is subject to the rules on its own
            pub = [A_bool(K.CKA_TOKEN, tok), A_bool(K.CKA_PRIVATE, False), A_bytes(K.CKA_LABEL, objs.label(n1)), A_bytes(K.CKA_EC_PARAMS, bytes.fromhex(objs.POOL["ec"][0]["params"])), A_bool(K.CKA_VERIFY, True)]
            prv = [A_bool(K.CKA_TOKEN, tokv), A_bool(K.CKA_PRIVATE, pv), A_bytes(K.CKA_LABEL, objs.label(n2)), A_bool(K.CKA_SIGN, True), A_bool(K.CKA_SENSITIVE, False), A_bool(K.CKA_EXTRACTABLE, True), A_bool(K.CKA_DERIVE, True)]
            ok = self.can_create(pid, s, tok, False) and self.can_create(pid, s, tokv, pv)
            self.emit({"f": "C_GenerateKeyPair", "s": s.ref, "mech": mechs.simple(K.CKM_EC_KEY_PAIR_GEN), "pub": pub, "priv": prv, "out": [n1, n2], "probe": "genpair"}, tid, ok=ok)
            self.info[n1] = {"kind": "ec_pub", "secret": {}}; self.info[n2] = {"kind": "ec_priv", "secret": {}}
        return True

W_SETUP = {"create": 1}
W = {"open": 6, "close": 4, "closeall": 1, "login": 10, "logout": 8, "create": 6, "destroy": 1, "restart": 1, "find": 4, "probe": 60}

def gen(seed, tier, index):
    r0 = __import__("random").Random(seed)
    g = GW(seed, "C01", ntok=2 if r0.random() < 0.65 else 1)
    r = g.r
    g.max_objs = 14
    g.begin()
    for t in g.toks():
        for _ in range(r.choice([1, 2, 2, 3])):
            g.s_open(tok=t)
        g.s_open(tok=t, rw=True)
        g.s_login(user=K.CKU_USER, tok=t)
    # population: every kind in a stratified way (index decides the emphasis)
    kinds = list(objs.KINDS); r.shuffle(kinds)
    for kd in kinds[: r.choice([4, 6, 9])]:
        rw = [s for s in g.live_sessions(1) if s.rw]
        if not rw: break
        g.s_create(kind=kd, private=r.random() < 0.75, token=r.random() < 0.6, sess=r.choice(rw))
    # stratum: privacy upgrade by copy (public -> private), the copy's handle is then kept across logouts
    if index % 3 == 0:
        for o in [x for x in g.live_objs(1) if not x.private and g.info.get(x.ref, {}).get("kind") in ("aes", "generic")][:2] or []:
            ss = [s for s in g.live_sessions(1, o.tok) if s.rw and g.P(1).login.get(o.tok) == "U"]
            if not ss: continue
            new = g.new_obj()
            g.emit({"f": "C_CopyObject", "s": ss[0].ref, "o": o.ref, "tmpl": [A_bytes(K.CKA_LABEL, objs.label(new)), A_bool(K.CKA_TOKEN, r.random() < 0.6), A_bool(K.CKA_PRIVATE, True)], "out": new, "probe": "copy_priv"})
            g.info[new] = g.info[o.ref]
            if r.random() < 0.6:
                # use the retained handle of the now private copy right away from a session that is no user session: as the OTHER key of
                # CKM_CONCATENATE_BASE_AND_KEY (the one entry point that takes an object handle inside the mechanism parameter), and for reading
                sref = ss[0].ref; tkm = g.w.toks[o.tok]
                g.emit({"f": "C_Logout", "s": sref})
                so_ok = not any(not z.rw for z in g.w.sessions_on(1, o.tok))
                if r.random() < 0.7: g.emit({"f": "C_Login", "s": sref, "user": K.CKU_SO, "pin": tkm.so_pin.hex()}, ok=so_ok)
                d = g.new_obj()
                t = [A_ulong(K.CKA_CLASS, K.CKO_SECRET_KEY), A_ulong(K.CKA_KEY_TYPE, K.CKK_GENERIC_SECRET), A_bool(K.CKA_TOKEN, False), A_bool(K.CKA_PRIVATE, False),
                     A_bytes(K.CKA_LABEL, objs.label(d)), A_bool(K.CKA_SENSITIVE, False), A_bool(K.CKA_EXTRACTABLE, True)]
                g.emit({"f": "C_DeriveKey", "s": sref, "mech": mechs.concat_key(new), "base": o.ref, "tmpl": t, "out": d, "probe": "derive_second", "second": new}, ok=False)
                g.info[d] = {"kind": "generic", "secret": {}}
                g.emit({"f": "C_GetAttributeValue", "s": sref, "o": new, "want": [[K.CKA_LABEL, 64]], "probe": "getattr"}, ok=False)
                if g.P(1).login.get(o.tok) == "S": g.emit({"f": "C_Logout", "s": sref})
                g.emit({"f": "C_Login", "s": sref, "user": K.CKU_USER, "pin": tkm.user_pin.hex()})
    n = r.choice([10, 16, 24, 40]) if tier == "quick" else r.choice([20, 40, 80])
    for _ in range(n):
        g.step(W)
    if index % 5 == 4:
        # fault stratum: the privacy decision is READ from storage that can fail. One I/O error inside up to three calls that take an object handle, on the
        # file store or (every other time) on the SQLite store: an object that cannot be read must not become a readable public one. Only "does not
        # succeed" and "leaks nothing" are judged from the first fault on (a faulted call may fail with any code, an entitled call may fail too)
        if index % 10 == 9: g.knobs["conf"]["objectstore.backend"] = "db"
        cands = [i for i, op in enumerate(g.ops[0]) if op.get("f") and any(isinstance(op.get(k_), str) for k_ in ("o", "key", "wkey", "ukey", "base", "second"))]
        if cands: g.extra["fault_candidates"] = sorted(r.sample(cands, min(len(cands), r.randint(1, 3)))); g.profile = "fault"
    return g.plan()

def prepare(plan, z):
    from gen import place_faults
    return place_faults(plan, z, plan["seed"])

def _v(cls, msg, **kw):
    d = {"class": cls, "msg": msg}; d.update(kw); return d

OBJ_KEYS = ("o", "key", "wkey", "ukey", "base", "second")

def outputs_of(ret):
    out = []
    def rec(x):
        if isinstance(x, dict):
            for k, v in x.items():
                if k in ("out", "dirty", "v") and isinstance(v, str): out.append(v)
                else: rec(v)
        elif isinstance(x, list):
            for v in x: rec(v)
    rec(ret)
    return out

def check(plan, r):
    viols = []; cov = set(); stats = {}
    def st(k, n=1): stats[k] = stats.get(k, 0) + n
    w = World(); pids = hist.pid_track(plan)
    tainted = set()   # objects successfully modified through a session of ANOTHER token (undefined by the statement): no positive expectations afterwards
    secrets = {}   # obj ref -> list of byte strings (>= 8 bytes) the harness supplied for it
    for t in plan["tasks"]:
        for op in t["ops"]:
            if op.get("f") == "C_CreateObject" and op.get("out"):
                vals = []
                for e in op["tmpl"]:
                    if e[0] in (K.CKA_VALUE, K.CKA_PRIVATE_EXPONENT, K.CKA_PRIME_1, K.CKA_PRIME_2, K.CKA_EXPONENT_1, K.CKA_EXPONENT_2, K.CKA_COEFFICIENT, K.CKA_SUBJECT) and len(e[2]) >= 24:
                        vals.append(e[2])
                secrets[op["out"]] = vals
    lastcreate = {}
    fops = [e.get("op") for e in r.hist if e.get("e") == "fs" and e.get("fault") and isinstance(e.get("op"), int)]
    ff = min(fops) if fops else None
    if fops: st("faults_fired", len(fops))
    if plan["knobs"].get("conf", {}).get("objectstore.backend") == "db": st("db_backend_runs")
    for tid, k, op, ret in hist.walk(plan, r):
        faulted = ff is not None and k >= ff
        pid = pids[tid][k]; P = w.proc(pid)
        f = hist.opname(op); rv = ret.get("rv"); ok = rv == 0
        if op.get("omit_private") and op.get("out"): lastcreate[op["out"]] = rv
        s = w.sess(pid, op.get("s")) if "s" in op else None
        if s is not None and not op.get("fin"):
            state = w.state_of(pid, s.ref)
            user_sess = state in (K.CKS_RO_USER_FUNCTIONS, K.CKS_RW_USER_FUNCTIONS)
            stn = K.name("CKS", state)
            # ---- objects referenced by this call
            refs = [(key, op[key]) for key in OBJ_KEYS if isinstance(op.get(key), str) and op[key] in w.objs] if not f.startswith("@") else []
            hmap = {"o": "ho", "key": "hk", "wkey": "hw", "ukey": "hu", "base": "hb"}
            for key, ref in refs:
                o = w.objs[ref]
                if o.tok != s.tok and ok: tainted.add(ref)
                if ref in tainted and not (o.private and not user_sess): continue
                hval = ret.get(hmap.get(key, ""), None)
                live = any(rr == ref for rr in P.h2obj.values()) and o.alive
                cross = o.tok != s.tok
                if o.private and (not user_sess):
                    st("neg_probe")
                    if live: st("neg_probe_live_handle")
                    else: st("stale_handle_probe")
                    if state == K.CKS_RW_SO_FUNCTIONS: st("so_session_probe")
                    if cross: st("cross_token_probe")
                    cov.add("neg|%s|%s|%s|%s|%s" % (stn, f, key, "live" if live else "stale", K.rvname(rv)))
                    if ok:
                        viols.append(_v("C01.private_access", "%s through a %s session succeeded on private object %s (as %s)%s" % (f, stn, ref, key, " [handle of the other token]" if cross else ""),
                                        call=f, op=k, state=stn, position=key, cross_token=cross))
                    elif faulted: st("neg_probe_after_fault")
                    elif live and f not in ("C_GetAttributeValue", "C_DigestKey") and key != "second" and rv not in (K.CKR_USER_NOT_LOGGED_IN, K.CKR_SESSION_READ_ONLY, K.CKR_OPERATION_ACTIVE):
                        # the access matrix names the code; other failures may legitimately come first only for a few argument checks
                        st("neg_code_checked")
                        if rv not in (K.CKR_ARGUMENTS_BAD, K.CKR_MECHANISM_INVALID, K.CKR_MECHANISM_PARAM_INVALID, K.CKR_KEY_TYPE_INCONSISTENT, K.CKR_TEMPLATE_INCOMPLETE, K.CKR_TEMPLATE_INCONSISTENT, K.CKR_ATTRIBUTE_VALUE_INVALID, K.CKR_OPERATION_NOT_INITIALIZED, K.CKR_KEY_HANDLE_INVALID, K.CKR_WRAPPING_KEY_HANDLE_INVALID, K.CKR_UNWRAPPING_KEY_HANDLE_INVALID, K.CKR_KEY_FUNCTION_NOT_PERMITTED, K.CKR_KEY_UNEXTRACTABLE, K.CKR_KEY_NOT_WRAPPABLE, K.CKR_KEY_SIZE_RANGE, K.CKR_WRAPPING_KEY_TYPE_INCONSISTENT, K.CKR_WRAPPED_KEY_INVALID, K.CKR_WRAPPED_KEY_LEN_RANGE, K.CKR_ACTION_PROHIBITED, K.CKR_ATTRIBUTE_READ_ONLY):
                            viols.append(_v("C01.code", "%s on live private %s through %s session failed with %s (access matrix: CKR_USER_NOT_LOGGED_IN)" % (f, ref, stn, K.rvname(rv)), call=f, op=k, rv=K.rvname(rv)))
                    elif live: st("neg_code_checked")
                    # no attribute value of the object in any output
                    st("output_scanned")
                    for hx in outputs_of(ret):
                        for sv in secrets.get(ref, []):
                            if sv in hx:
                                viols.append(_v("C01.value_leak", "%s through a %s session returned bytes of private object %s" % (f, stn, ref), call=f, op=k, state=stn))
                elif faulted: pass
                elif key == "o" and live and not cross and f == "C_GetAttributeValue" and (not o.private or user_sess):
                    # positive direction: an entitled session can read the label
                    if any(a[0] == K.CKA_LABEL and a[1] for a in op.get("want", [])) and len(op.get("want", [])) == 1:
                        st("pos_probe_ok")
                        cov.add("pos|%s|getattr|%s" % (stn, ok))
                        if not ok:
                            viols.append(_v("C01.entitled_refused", "C_GetAttributeValue(CKA_LABEL) of %s object %s through a %s session failed with %s" % ("private" if o.private else "public", ref, stn, K.rvname(rv)), call=f, op=k, rv=K.rvname(rv)))
                elif key == "o" and live and not cross and f in ("C_SetAttributeValue", "C_DestroyObject") and (not o.private or user_sess):
                    if o.token and not s.rw:
                        st("ro_write_refused"); cov.add("ro_write|%s|%s|%s" % (stn, f, K.rvname(rv)))
                        if ok: viols.append(_v("C01.ro_write", "%s changed token object %s through a read-only session" % (f, ref), call=f, op=k, state=stn))
                        elif rv != K.CKR_SESSION_READ_ONLY: viols.append(_v("C01.code", "%s of a token object via RO session returned %s (CKR_SESSION_READ_ONLY expected)" % (f, K.rvname(rv)), call=f, op=k, rv=K.rvname(rv)))
                    elif o.modifiable and o.destroyable:
                        st("pos_probe_ok"); cov.add("pos|%s|%s|%s" % (stn, f, ok))
                        if not ok:
                            viols.append(_v("C01.entitled_refused", "%s of %s object %s through a %s session failed with %s" % (f, "private" if o.private else "public", ref, stn, K.rvname(rv)), call=f, op=k, rv=K.rvname(rv)))
            # ---- creation rules
            newtm = None
            if f in ("C_CreateObject", "C_GenerateKey", "C_UnwrapKey", "C_DeriveKey", "C_CopyObject"): newtm = [op.get("tmpl")]
            if f == "C_GenerateKeyPair": newtm = [op.get("pub"), op.get("priv")]
            if newtm:
                src = w.objs.get(op.get("o")) if f == "C_CopyObject" else None
                for tm in newtm:
                    pv = tbool(tm, K.CKA_PRIVATE, None); tk = tbool(tm, K.CKA_TOKEN, None)
                    if f == "C_CopyObject" and src is not None:
                        if pv is None: pv = src.private
                        if tk is None: tk = src.token
                    if pv and not user_sess:
                        st("private_create_refused"); cov.add("create_priv|%s|%s|%s" % (stn, f, K.rvname(rv)))
                        if ok: viols.append(_v("C01.private_created", "%s created a CKA_PRIVATE object through a %s session" % (f, stn), call=f, op=k, state=stn))
                    if tk and not s.rw:
                        st("ro_write_refused"); cov.add("create_tok_ro|%s|%s|%s" % (stn, f, K.rvname(rv)))
                        if ok: viols.append(_v("C01.ro_write", "%s created a token object through a read-only session" % f, call=f, op=k, state=stn))
            if f == "@readattrs" and op.get("after_default_create") and lastcreate.get(op["after_default_create"]) == 0 and not user_sess:
                st("default_privacy_checked")
                a = ret.get("attrs", {}).get(str(K.CKA_PRIVATE), {})
                cov.add("create_default|%s|%s" % (stn, a.get("v", "rv%s" % a.get("rv"))))
                if a.get("v") != "00":
                    viols.append(_v("C01.private_created", "C_CreateObject without CKA_PRIVATE through a %s session returned CKR_OK, and the new object %s" % (stn, "is private" if a.get("v") == "01" else "cannot be read by the session that created it (%s)" % K.rvname(a.get("rv"))), call="C_CreateObject", op=k, state=stn, defaulted=True))
            # ---- searches
            if f == "@find" and ok:
                found = []
                for e in ret.get("ids", []):
                    ref = e.get("ref") or P.h2obj.get(e["h"])
                    found.append((ref, e))
                privs = [ref for ref, e in found if ref in w.objs and w.objs[ref].private]
                hidden = [o for o in w.objs.values() if o.alive and o.private and o.tok == s.tok and w.obj_live_in(pid, o)]
                cov.add("find|%s|hid%d|shown%d" % (stn, min(len(hidden), 2), min(len(privs), 2)))
                if not user_sess:
                    if hidden: st("search_hides_private")
                    if privs:
                        viols.append(_v("C01.search_leak", "search through a %s session returned handles to private objects %s" % (stn, privs), call="C_FindObjects", op=k, state=stn))
                    for ref, e in found:
                        if ref is None and not tainted:
                            viols.append(_v("C01.search_leak", "search through a %s session returned an object whose label cannot be read (%s)" % (stn, e), call="C_FindObjects", op=k, state=stn))
                else:
                    if privs: st("search_shows_private")
                    if not op.get("tmpl"):
                        miss = [o.ref for o in hidden if o.ref not in [x for x, _ in found] and o.ref not in tainted]
                        if miss and not faulted: viols.append(_v("C01.entitled_refused", "search in a %s session does not return private objects %s" % (stn, miss), call="C_FindObjects", op=k))
        w.apply(pid, op, ret)
        if op.get("omit_private") and ok and op.get("out") in w.objs:
            # CKA_PRIVATE was left to the library: PKCS#11's defaults as SoftHSM implements them (public keys and certificates public, everything else private);
            # the creating session's read-back, where the plan still has it, overrides this
            kl = [e for e in op["tmpl"] if e[0] == K.CKA_CLASS]
            klass_ = int.from_bytes(bytes.fromhex(kl[0][2]), "little") if kl else None
            w.objs[op["out"]].private = klass_ not in (K.CKO_PUBLIC_KEY, K.CKO_CERTIFICATE)
        if f == "@readattrs" and op.get("after_default_create") in w.objs:
            a_ = ret.get("attrs", {}).get(str(K.CKA_PRIVATE), {})
            if a_.get("v") in ("00", "01"): w.objs[op["after_default_create"]].private = (a_["v"] == "01")
    r.aux["c01"] = (cov, stats)
    return viols[:5]

def cover(plan, r):
    cov, stats = r.aux.get("c01", (set(), {}))
    return {"keys": sorted(cov), "nontrivial": stats.get("neg_probe", 0) > 0, "stats": stats}

TECHNIQUE = "deterministic simulation: seeded session/login histories with access probes of every object-taking entry point, judged against the access matrix by a reference model"
CLAIM = ("Seeded exploration: the real library runs inside the simulator while the generator walks login/logout/close/restart histories on one or two tokens and probes "
         "~25 entry points with live, stale, cross-token and foreign-found handles; every probe of a private object from a session that is not a user session must fail "
         "(with the access-matrix code where the handle is live), leak no registered value and yield no handle; token-object writes through RO sessions must fail; the positive "
         "direction is checked so that a library refusing everything is caught. Evidence, not proof.")
NOTE = "Trusted: reference model; harness-known values (>= 12 bytes) for leak scanning. A second process without login is exercised in C15. Every fifth plan injects one I/O error into up to three calls that take an object handle (file store, and SQLite store every other time): from the first fault on only 'does not succeed' and 'leaks nothing' are judged."
