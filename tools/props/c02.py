"""C02 - sensitive or unextractable key material never leaves the token in the clear (DESIGN 4, C02)."""
import p11const as K
from p11const import A_bool, A_ulong, A_bytes
from gen import RW, RO
from model import World, tbool, tget, tulong
from store import decode_read, fmt
import hist, objs, mechs
from props import c08

LEVEL = "exploration"
QUICK_RUNS = 1500
QUICK_BUDGET_S = 90
THOROUGH_RUNS = 10 ** 7
RULE = ("seeded key histories: secret keys (AES, DES3, generic) and RSA/EC private keys come into existence by every path (C_CreateObject with harness-known values, C_GenerateKey with the value known through the RNG "
        "seam, C_UnwrapKey, C_DeriveKey incl. the three CKM_CONCATENATE_* whose result the harness can compute, C_CopyObject) with all four combinations of CKA_SENSITIVE/CKA_EXTRACTABLE, plus "
        "CKA_WRAP_WITH_TRUSTED and SO-created trusted wrapping keys; then: C_GetAttributeValue of every secret attribute alone and mixed with harmless ones, with NULL / short / exact / oversized buffers; "
        "C_SetAttributeValue and C_CopyObject templates that try to clear the protection; C_WrapKey under trusted and untrusted keys; derive-and-read; the same from another session and after restarts. "
        "Distinct+non-trivial: (origin of the key, flag state, attempt kind, buffer class, outcome) with the key protected.")
PROBES = ["db_backend_runs", "protected_read_under_fault", "protected_read_refused", "unprotected_read_ok", "buffer_untouched_checked", "mixed_template", "wrap_unextractable_refused", "wrap_with_trusted_untrusted_refused", "wrap_with_trusted_trusted_ok", "wrap_ok",
          "clear_protection_refused", "copy_clear_refused", "derived_inherits", "outputs_scanned", "after_restart", "generated_value_known", "rsa_components"]
DEATH_IS_VIOLATION = ()

SECRET_ATTRS = [K.CKA_VALUE, K.CKA_PRIVATE_EXPONENT, K.CKA_PRIME_1, K.CKA_PRIME_2, K.CKA_EXPONENT_1, K.CKA_EXPONENT_2, K.CKA_COEFFICIENT]

class GW(c08.GW):
    def keys(self, pid, kinds=("aes", "generic", "des3", "rsa_priv", "ec_priv", "dsa_priv", "dh_priv")):
        return [o for o in self.live_objs(pid) if self.info.get(o.ref, {}).get("kind") in kinds and o.ref in self.P(pid).h2obj.values() and not (o.private and self.P(pid).login.get(o.tok) != "U")]

    def s_gen(self, tid=0, pid=1):
        n0 = len(self.ops[tid])
        ref = super().s_gen(tid, pid)
        for op in self.ops[tid][n0:]:
            if op.get("f") == "C_GenerateKey":
                n = tulong(op["tmpl"], K.CKA_VALUE_LEN, 24)
                op["rng"] = {"min": n, "max": n, "first": True}
        return ref

    def s_read(self, tid=0, pid=1):
        r = self.r
        ks = self.keys(pid)
        if not ks: return False
        o = r.choice(ks)
        ss = [s for s in self.live_sessions(pid) if s.tok == o.tok]
        if not ss: return False
        s = r.choice(ss)
        kind = self.info[o.ref]["kind"]
        sec = [K.CKA_VALUE] if kind != "rsa_priv" else SECRET_ATTRS[1:]
        harmless = [K.CKA_LABEL, K.CKA_ID, K.CKA_CLASS, K.CKA_KEY_TYPE, K.CKA_SENSITIVE, K.CKA_EXTRACTABLE, K.CKA_MODULUS]
        x = r.random()
        a = r.choice(sec)
        cap = r.choice([None, 0, 1, 7, 8, 15, 16, 24, 32, 64, 128, 129, 512])
        if x < 0.45: want = [[a, cap]]
        elif x < 0.8:
            want = [[r.choice(harmless), r.choice([None, 64, 512])] for _ in range(r.randint(1, 3))]
            want.insert(r.randint(0, len(want)), [a, cap])
        else: want = [[t, r.choice([None, 512])] for t in sec]
        self.emit({"f": "C_GetAttributeValue", "s": s.ref, "o": o.ref, "want": want, "read": True}, tid)
        return True

    def s_clear(self, tid=0, pid=1):
        """attempts to remove a protection by set or copy"""
        r = self.r
        ks = self.keys(pid)
        if not ks: return False
        o = r.choice(ks)
        ss = [s for s in self.live_sessions(pid) if s.tok == o.tok]
        if not ss: return False
        s = r.choice(ss)
        attr, val = r.choice([(K.CKA_SENSITIVE, False), (K.CKA_EXTRACTABLE, True), (K.CKA_WRAP_WITH_TRUSTED, False), (K.CKA_SENSITIVE, True), (K.CKA_EXTRACTABLE, False), (K.CKA_WRAP_WITH_TRUSTED, True)])
        if r.random() < 0.55:
            self.emit({"f": "C_SetAttributeValue", "s": s.ref, "o": o.ref, "tmpl": [A_bool(attr, val)], "toggle": True}, tid, ok=False)
        else:
            ref = self.new_obj()
            tm = [A_bytes(K.CKA_LABEL, objs.label(ref)), A_bool(K.CKA_TOKEN, r.random() < 0.5), A_bool(attr, val)]
            self.emit({"f": "C_CopyObject", "s": s.ref, "o": o.ref, "tmpl": tm, "out": ref, "toggle_copy": True}, tid, ok=False)
            self.info[ref] = self.info[o.ref]
            self.emit({"f": "C_GetAttributeValue", "s": s.ref, "o": ref, "want": [[K.CKA_VALUE if self.info[o.ref]["kind"] != "rsa_priv" else K.CKA_PRIME_1, 512], [K.CKA_SENSITIVE, 1], [K.CKA_EXTRACTABLE, 1]], "read": True}, tid)
        return True

    def s_wrap(self, tid=0, pid=1):
        r = self.r
        ks = self.keys(pid, ("aes", "generic", "des3"))
        wks = [o for o in self.keys(pid, ("aes",))]
        if not ks or not wks: return False
        k = r.choice(ks); wk = r.choice(wks)
        ss = [s for s in self.live_sessions(pid) if s.tok == k.tok]
        if not ss: return False
        s = r.choice(ss)
        m = r.choice([mechs.simple(K.CKM_AES_KEY_WRAP_PAD), mechs.simple(K.CKM_AES_KEY_WRAP), mechs.simple(K.CKM_AES_CBC_PAD, bytes(16))])
        self.emit({"f": "C_WrapKey", "s": s.ref, "mech": m, "wkey": wk.ref, "key": k.ref, "outcap": r.choice([None, 256, 256, 256])}, tid, ok=False)
        return True

    def s_trustedkey(self, tid=0, pid=1):
        """the SO creates a trusted (public) wrapping key"""
        r = self.r; t = r.choice(self.toks()); P = self.P(pid)
        ss = [s for s in self.live_sessions(pid, t) if s.rw]
        if not ss or any(not s.rw for s in self.live_sessions(pid, t)): return False
        s = ss[0]
        if P.login.get(t): self.emit({"f": "C_Logout", "s": s.ref}, tid)
        self.emit({"f": "C_Login", "s": s.ref, "user": K.CKU_SO, "pin": self.w.toks[t].so_pin.hex()}, tid)
        ref = self.new_obj()
        tm, info = objs.make("aes", ref, r, token=True, private=False, flags={"sensitive": r.random() < 0.5, "extractable": True})
        tm.append(A_bool(K.CKA_TRUSTED, True)); self.info[ref] = info
        self.emit({"f": "C_CreateObject", "s": s.ref, "tmpl": tm, "out": ref}, tid)
        self.emit({"f": "C_Logout", "s": s.ref}, tid)
        self.emit({"f": "C_Login", "s": s.ref, "user": K.CKU_USER, "pin": self.w.toks[t].user_pin.hex()}, tid)
        self.emit({"act": "find", "s": s.ref, "tmpl": [], "batches": []}, tid)
        return True

    def s_concat(self, tid=0, pid=1):
        """derive with CKM_CONCATENATE_* from keys of known value, then try to read the result"""
        r = self.r
        token = r.random() < 0.4; private = r.random() < 0.5
        s = self.pick_sess_for_new(pid, token, private)
        if not s: return False
        ks = [o for o in self.keys(pid, ("aes", "generic")) if o.tok == s.tok]
        if not ks: return False
        b = r.choice(ks); ref = self.new_obj()
        which = r.choice(["bd", "db", "bk"])
        data = objs.rnd(r, r.choice([8, 16]))
        if which == "bd": m = mechs.kdsd(K.CKM_CONCATENATE_BASE_AND_DATA, data); second = None
        elif which == "db": m = mechs.kdsd(K.CKM_CONCATENATE_DATA_AND_BASE, data); second = None
        else: k2 = r.choice(ks); m = mechs.concat_key(k2.ref); second = k2.ref
        # the template asks for an UNPROTECTED key: the protection must come from the parents
        t = self.new_key_tmpl(ref, token, private, ktype=K.CKK_GENERIC_SECRET, sensitive=(r.random() < 0.2), extractable=(r.random() < 0.85))
        op = {"f": "C_DeriveKey", "s": s.ref, "mech": m, "base": b.ref, "tmpl": t, "out": ref, "concat": which, "data": data.hex()}
        if second: op["second"] = second
        self.emit(op, tid)
        self.info[ref] = {"kind": "generic", "secret": {}}
        self.emit({"f": "C_GetAttributeValue", "s": s.ref, "o": ref, "want": [[K.CKA_VALUE, 512], [K.CKA_SENSITIVE, 1], [K.CKA_EXTRACTABLE, 1]], "read": True}, tid)
        return ref

W = {"create": 14, "gen": 8, "genpair": 2, "unwrap": 5, "derive": 3, "concat": 10, "copy": 4, "read": 30, "clear": 14, "wrap": 12, "trustedkey": 2, "restart": 1.5, "open": 2}

def gen(seed, tier, index):
    g = GW(seed, "C02")
    r = g.r; g.max_objs = 14
    g.begin()
    for t in g.toks():
        g.s_open(tok=t, rw=True); g.s_login(user=K.CKU_USER, tok=t)
    if r.random() < 0.5: g.s_trustedkey()
    kinds = ["aes", "generic", "des3", "rsa_priv", "ec_priv", "aes", "generic", "dsa_priv", "dh_priv"]
    for _ in range(3): g.s_create(kind=r.choice(kinds))
    n = r.choice([10, 14, 20, 30]) if tier == "quick" else r.choice([16, 30, 50])
    for _ in range(n):
        name = g.step(W)
        if name == "restart": g.relogin_all()
    if index % 4 == 3:
        # fault stratum: the protection flags themselves are READ from storage that can fail. SQLite store on the simulated disk, one read-side I/O error
        # (read / access / fstat / lock below SQLite) inside up to three of the calls that read a secret attribute: such a call may fail, it may never reveal
        # the value - neither then nor in any later read
        g.knobs["conf"]["objectstore.backend"] = "db"
        reads = [i for i, op in enumerate(g.ops[0]) if op.get("f") == "C_GetAttributeValue" and op.get("read")]
        if reads: g.extra["fault_candidates"] = sorted(r.sample(reads, min(len(reads), r.randint(1, 3)))); g.profile = "fault"
    elif index % 4 == 1 and index % 8 == 5:
        g.knobs["conf"]["objectstore.backend"] = "db"      # fault-free runs on the SQLite store
    return g.plan()

def prepare(plan, z):
    from gen import place_faults
    return place_faults(plan, z, plan["seed"])

def _v(cls, msg, **kw):
    d = {"class": cls, "msg": msg}; d.update(kw); return d

def check(plan, r):
    viols = []; cov = set(); stats = {}
    def st(k, n=1): stats[k] = stats.get(k, 0) + n
    w = World(); pids = hist.pid_track(plan)
    secret = {}    # ref -> {attr type: bytes} values the harness knows
    origin = {}
    restarted = False
    eff = {}
    def protected(o): return bool(o.sensitive) or o.extractable is False
    fault_ops = set(e.get("op") for e in r.hist if e.get("e") == "fs" and e.get("fault"))
    ff = min([x for x in fault_ops if isinstance(x, int)], default=None)
    def after_fault(k_): return ff is not None and k_ >= ff      # an object store that could not be read may refuse the object from then on: any refusal is fine, a revealed value never is
    backend = plan["knobs"].get("conf", {}).get("objectstore.backend", "file")
    if backend == "db": st("db_backend_runs")
    for tid, k, op, ret in hist.walk(plan, r):
        pid = pids[tid][k]; P = w.proc(pid)
        f = hist.opname(op); rv = ret.get("rv"); ok = rv == 0
        s = w.sess(pid, op.get("s")) if "s" in op else None
        if f == "@restart": restarted = True
        o = w.objs.get(op.get("o")) if isinstance(op.get("o"), str) else None
        live = o is not None and o.alive and any(rr == o.ref for rr in P.h2obj.values()) and s is not None and (not o.private or w.user_logged_in(pid, s.tok)) and o.tok == s.tok
        # ---- reads
        if f == "C_GetAttributeValue" and op.get("read") and live and o.is_key() and o.sensitive is not None:
            prot = protected(o)
            want = op["want"]; res = ret.get("attrs", [])
            if len(want) > 1: st("mixed_template")
            saw_secret = False
            for (t_, cap), a in zip(want, res):
                if t_ not in SECRET_ATTRS: continue
                saw_secret = True
                bufc = "null" if cap is None else "0" if cap == 0 else "short" if cap < 16 else "big"
                cov.add("read|%s|s%d|e%d|%s|%s|%s" % (origin.get(o.ref, "?"), bool(o.sensitive), o.extractable is not False, K.name("CKA", t_), bufc, K.rvname(rv)))
                if prot:
                    st("protected_read_refused")
                    if restarted: st("after_restart")
                    if k in fault_ops: st("protected_read_under_fault")
                    if rv != K.CKR_ATTRIBUTE_SENSITIVE and after_fault(k) and rv != 0:
                        pass      # an injected I/O error inside this call or before it: it may fail in another way (the checks below still demand that nothing was revealed)
                    elif rv != K.CKR_ATTRIBUTE_SENSITIVE:
                        viols.append(_v("C02.sensitive_rv", "C_GetAttributeValue(%s) of a protected key (sensitive=%s extractable=%s, made by %s) returned %s instead of CKR_ATTRIBUTE_SENSITIVE" % (K.name("CKA", t_), o.sensitive, o.extractable, origin.get(o.ref), K.rvname(rv)), call=f, op=k, attr=K.name("CKA", t_), origin=origin.get(o.ref)))
                    if a.get("len") != -1 and not (after_fault(k) and rv not in (0, K.CKR_ATTRIBUTE_SENSITIVE)):
                        viols.append(_v("C02.length_revealed", "C_GetAttributeValue(%s) of a protected key reports length %s instead of CK_UNAVAILABLE_INFORMATION" % (K.name("CKA", t_), a.get("len")), call=f, op=k, attr=K.name("CKA", t_), origin=origin.get(o.ref)))
                    if cap is not None:
                        st("buffer_untouched_checked")
                        if a.get("touched", 0) != 0 or ("v" in a and not (after_fault(k) and rv not in (0, K.CKR_ATTRIBUTE_SENSITIVE))):      # a call that failed on an I/O error leaves ulValueLen alone: the "value" is the untouched canary
                            viols.append(_v("C02.bytes_written", "C_GetAttributeValue(%s) of a protected key wrote %s bytes into the caller's buffer" % (K.name("CKA", t_), a.get("touched")), call=f, op=k, attr=K.name("CKA", t_), origin=origin.get(o.ref)))
                    known = secret.get(o.ref, {}).get(t_)
                    st("outputs_scanned")
                    if known and len(known) >= 8:
                        for hx in (a.get("v"), a.get("dirty")):
                            if hx and known[:8].hex() in hx:
                                viols.append(_v("C02.value_leak", "bytes of %s of protected key %s appear in the output buffer" % (K.name("CKA", t_), o.ref), call=f, op=k, attr=K.name("CKA", t_), origin=origin.get(o.ref)))
                else:
                    if rv == 0 and cap is not None and "v" in a: st("unprotected_read_ok")
                    if rv == K.CKR_ATTRIBUTE_SENSITIVE and o.sensitive is False and o.extractable is True and t_ in (K.CKA_VALUE,) and origin.get(o.ref) in ("create", "generate"):
                        viols.append(_v("C02.unprotected_refused", "the value of a key that is neither sensitive nor unextractable is refused as sensitive", call=f, op=k, origin=origin.get(o.ref)))
                    # learn the value of keys made inside the token while they are still readable (derived / unwrapped)
                    if rv == 0 and "v" in a and o.ref not in secret: secret.setdefault(o.ref, {})[t_] = bytes.fromhex(a["v"])
            if self_rsa(o, secret): st("rsa_components")
        # ---- wrap
        if f == "C_WrapKey":
            key = w.objs.get(op.get("key")); wk = w.objs.get(op.get("wkey"))
            def usable(x): return x is not None and x.alive and any(rr == x.ref for rr in P.h2obj.values()) and s is not None and x.tok == s.tok and (not x.private or w.user_logged_in(pid, s.tok))
            if usable(key) and usable(wk) and key.extractable is not None:
                cov.add("wrap|e%d|wwt%d|trusted%d|%s" % (key.extractable is not False, bool(key.wwt), bool(wk.trusted), K.rvname(rv)))
                if key.extractable is False:
                    st("wrap_unextractable_refused")
                    if ok: viols.append(_v("C02.wrapped_unextractable", "C_WrapKey succeeded for a key with CKA_EXTRACTABLE = false (made by %s)" % origin.get(key.ref), call=f, op=k, origin=origin.get(key.ref)))
                    elif rv != K.CKR_KEY_UNEXTRACTABLE and not after_fault(k): viols.append(_v("C02.wrap_code", "C_WrapKey of an unextractable key returned %s (CKR_KEY_UNEXTRACTABLE expected)" % K.rvname(rv), call=f, op=k))
                elif key.wwt and not wk.trusted:
                    st("wrap_with_trusted_untrusted_refused")
                    if ok: viols.append(_v("C02.wrap_with_untrusted", "a key with CKA_WRAP_WITH_TRUSTED = true was wrapped under a key that is not CKA_TRUSTED", call=f, op=k))
                elif ok:
                    st("wrap_ok")
                    if key.wwt and wk.trusted: st("wrap_with_trusted_trusted_ok")
                    known = secret.get(key.ref, {}).get(K.CKA_VALUE)
                    if known and len(known) >= 8 and ret.get("out") and known[:8].hex() in ret["out"] and (key.sensitive or True):
                        viols.append(_v("C02.value_leak", "the wrapped blob contains the key value in the clear", call=f, op=k))
        # ---- protections cannot be removed
        if (op.get("toggle") or op.get("toggle_copy")) and live and o.is_key():
            e = [x for x in op["tmpl"] if x[0] in (K.CKA_SENSITIVE, K.CKA_EXTRACTABLE, K.CKA_WRAP_WITH_TRUSTED)][0]
            a, val = e[0], e[2] == "01"
            cur = {K.CKA_SENSITIVE: o.sensitive, K.CKA_EXTRACTABLE: o.extractable, K.CKA_WRAP_WITH_TRUSTED: o.wwt}[a]
            clearing = (a == K.CKA_SENSITIVE and cur is True and not val) or (a == K.CKA_EXTRACTABLE and cur is False and val) or (a == K.CKA_WRAP_WITH_TRUSTED and cur is True and not val)
            cov.add("clear|%s|%s|%s->%s|%s" % ("copy" if op.get("toggle_copy") else "set", K.name("CKA", a), cur, val, "ok" if ok else "refused"))
            if clearing:
                st("copy_clear_refused" if op.get("toggle_copy") else "clear_protection_refused")
                if ok: viols.append(_v("C02.protection_removed", "%s turned %s from %s to %s" % (f, K.name("CKA", a), cur, val), call=f, op=k, attr=K.name("CKA", a), by="copy" if op.get("toggle_copy") else "set"))
        # ---- bookkeeping: what the harness knows
        if ok and f == "C_CreateObject" and op.get("out"):
            origin[op["out"]] = "create"
            secret[op["out"]] = {e[0]: bytes.fromhex(e[2]) for e in op["tmpl"] if e[0] in SECRET_ATTRS and e[1] == "x"}
        elif ok and f == "C_GenerateKey" and op.get("out"):
            origin[op["out"]] = "generate"
            if ret.get("rng"): secret[op["out"]] = {K.CKA_VALUE: bytes.fromhex(ret["rng"][0])}; st("generated_value_known")
        elif ok and f == "C_GenerateKeyPair" and op.get("out"):
            origin[op["out"][0]] = origin[op["out"][1]] = "generate"
        elif ok and f == "C_UnwrapKey" and op.get("out"): origin[op["out"]] = "unwrap"
        elif ok and f == "C_CopyObject" and op.get("out") and isinstance(op.get("o"), str):
            origin[op["out"]] = "copy:" + origin.get(op["o"], "?").split(":")[-1]
            if op["o"] in secret: secret[op["out"]] = secret[op["o"]]
        elif ok and f == "C_DeriveKey" and op.get("out"):
            origin[op["out"]] = "derive"
            brefs = [op.get("base")] + ([op.get("second")] if op.get("second") else [])
            bo = [w.objs.get(x) for x in brefs]
            if op.get("concat") and all(b is not None for b in bo):
                tm = op["tmpl"]
                sens = tbool(tm, K.CKA_SENSITIVE, False) or any(b.sensitive for b in bo)
                extr = tbool(tm, K.CKA_EXTRACTABLE, False) and all(b.extractable is not False for b in bo)
                eff[op["out"]] = (sens, extr)
                if any(protected(b) for b in bo): st("derived_inherits")
                vals = [secret.get(x, {}).get(K.CKA_VALUE) for x in brefs]
                if all(v is not None for v in vals):
                    data = bytes.fromhex(op["data"])
                    val = vals[0] + data if op["concat"] == "bd" else data + vals[0] if op["concat"] == "db" else vals[0] + vals[1]
                    secret[op["out"]] = {K.CKA_VALUE: val}
        w.apply(pid, op, ret)
        if ok and isinstance(op.get("out"), str) and op["out"] in eff and op["out"] in w.objs:
            w.objs[op["out"]].sensitive, w.objs[op["out"]].extractable = eff.pop(op["out"])
    first_fault = min([x for x in fault_ops if isinstance(x, int)], default=None)
    for v in viols:
        v["backend"] = backend
        v["read_fault_before"] = bool(first_fault is not None and isinstance(v.get("op"), int) and v["op"] >= first_fault)
    r.aux["c02"] = (cov, stats)
    seen = set(); out = []
    for v in viols:
        key = (v["class"], v.get("attr"), v.get("origin"), v.get("by"))
        if key in seen: continue
        seen.add(key); out.append(v)
    return out[:6]

def self_rsa(o, secret):
    return o is not None and K.CKA_PRIME_1 in secret.get(o.ref, {})

def cover(plan, r):
    cov, stats = r.aux.get("c02", (set(), {}))
    return {"keys": sorted(cov), "nontrivial": stats.get("protected_read_refused", 0) > 0, "stats": stats}

TECHNIQUE = "deterministic simulation: seeded key life histories with an invariant monitor over every output buffer (harness-known and RNG-seam-known key values) and a reference model of the protection flags"
CLAIM = ("Seeded exploration: keys of every class are made by every path and taken through set/copy/derive/wrap attempts and restarts by the real library in the simulator; for every read of a secret attribute of a key "
         "that the model says is protected, the return code (CKR_ATTRIBUTE_SENSITIVE), the reported length (CK_UNAVAILABLE_INFORMATION) and the caller's canary-filled exact-size buffer (no byte written; ASan red zones beyond "
         "it) are checked and every output is scanned for the key's value; CKA_EXTRACTABLE=false never wraps, CKA_WRAP_WITH_TRUSTED only under a trusted key, protections are never removed by set or copy, and keys "
         "derived with the concatenation mechanisms inherit them. The schedule dimension (a racing flag change) is not exercised here. Evidence, not proof.")
NOTE = "Trusted: reference model of the flags incl. inheritance rules of PKCS#11 v2.40 2.31.4-2.31.7; the RNG seam (a generated key's value is the first draw of its length). Every fourth plan runs on the SQLite object store over the simulated disk with one read-side I/O error inside up to three of the calls that read a secret attribute: there a call may fail in any way (also on later reads of an object the store has given up on) but never reveal a byte of the value."
