"""C15 - processes sharing a token directory see each other's committed changes (DESIGN 4, C15)."""
import p11const as K
from p11const import A_bool, A_ulong, A_bytes
from gen import G, RW, RO
from model import World, ref_of_label, tbool, tget
from store import decode_read, fmt, same, norm_supplied
import hist, objs, decoder

LEVEL = "exploration"
QUICK_RUNS = 1000
QUICK_BUDGET_S = 95
THOROUGH_RUNS = 10 ** 7
SHRINK_BUDGET = 150
RULE = ("2-3 simulated processes (complete, symbol-renamed copies of the library, each with its own singletons, sessions and login) on one simulated token directory with per-process POSIX lock ownership; "
        "each issues 4-12 calls (create / copy / set different or same attributes / destroy / search / read of shared token objects, private and public, fresh and stale handles). Schedules are seeded: half the runs "
        "switch only at call boundaries (every interleaving is a sequential history), half switch between any two file operations with probability 0.05-0.5 (a reader can run between a writer's ftruncate and "
        "write, two writers race for the lock files, a re-index runs between the two unlinks of a destroy). Oracle: interval semantics against the shared-store model for every search, read and stale-handle use "
        "during the run (exact when calls do not overlap), and at quiescence the exact check - every process's view, the decoded disk and a third copy started cold agree with: created-and-acknowledged minus "
        "destroyed-and-acknowledged objects, each acknowledged attribute change present. Distinct+non-trivial: (policy, operation pair of two processes on the same object, overlap or not, outcome).")
PROBES = ["convergence_checked", "quiet_point_agreement_checked", "cross_process_observation", "search_sees_foreign_create", "search_misses_foreign_destroy", "stale_handle_rejected", "foreign_value_read", "overlapping_calls", "lock_blocked", "fs_switches", "quiescence_checked", "cold_copy_checked", "disk_checked", "contended_same_object", "different_attrs_same_object"]
DEATH_IS_VIOLATION = ("died.exit", "died.sanitizer", "died.signal", "died.hang", "died.deadlock")

READ_T = [K.CKA_LABEL, K.CKA_ID, K.CKA_VALUE, K.CKA_START_DATE, K.CKA_END_DATE, K.CKA_CLASS, K.CKA_PRIVATE, K.CKA_DERIVE]

def mk_key(ref, r, private):
    t, info = objs.make(r.choice(["aes", "generic"]), ref, r, token=True, private=private, flags={"sensitive": False, "extractable": True})
    return t

def mk_data(ref, r, private):
    t, info = objs.make("data", ref, r, token=True, private=private, vlen=r.choice([8, 40, 600]))
    return t

def gen(seed, tier, index):
    g = G(seed, "C15", profile="mproc"); r = g.r
    nproc = 2 if r.random() < 0.65 else 3
    io = (index % 2 == 1)
    if index % 6 == 4:
        # the SQLite object store between processes, at CALL granularity (every interleaving is a sequential history over the shared database; each simulated
        # process has its own SQLite connection, locks are arbitrated by the VFS stub). File-operation granularity is left to the file store: a thread parked
        # inside libsqlite3 holds real mutexes of that library, which the scheduler does not own
        g.knobs["conf"] = dict(g.knobs.get("conf", {})); g.knobs["conf"]["objectstore.backend"] = "db"; io = False
    g.knobs["policy"] = "io" if io else "call"
    g.knobs["switch_p"] = r.choice([0.05, 0.1, 0.2, 0.35, 0.5]) if io else r.choice([0.3, 0.5, 0.8])
    g.knobs["short_io"] = False
    for t in range(nproc): g.task(t, t + 1)
    so = g.pin(); up = g.pin()
    g.emit({"act": "start"}, 0)
    tok = g.setup_token(0, so_pin=so, upin=up)
    s0 = g.new_sess()
    g.emit({"f": "C_OpenSession", "slot": tok, "flags": RW, "out": s0}, 0)
    g.emit({"f": "C_Login", "s": s0, "user": K.CKU_USER, "pin": up.hex()}, 0)
    shared = []
    for _ in range(r.choice([1, 2, 3])):
        ref = g.new_obj(); pv = r.random() < 0.4
        g.emit({"f": "C_CreateObject", "s": s0, "tmpl": (mk_key if r.random() < 0.7 else mk_data)(ref, r, pv), "out": ref}, 0); shared.append(ref)
    sess = {0: s0}
    for t in range(nproc): g.emit({"act": "barrier"}, t)
    for t in range(1, nproc):
        g.emit({"act": "start"}, t)
        s = g.new_sess(); sess[t] = s
        g.emit({"f": "C_OpenSession", "slot": tok, "flags": RW, "out": s}, t)
        if r.random() < 0.85: g.emit({"f": "C_Login", "s": s, "user": K.CKU_USER, "pin": up.hex()}, t)
        if r.random() < 0.7: g.emit({"act": "find", "s": s, "tmpl": [], "batches": []}, t)
    created = {t: [] for t in range(nproc)}
    allrefs = list(shared)
    stratum = index % 5
    def keys_only(): return [x for x in allrefs if g.w.objs.get(x) is not None and g.w.objs[x].klass == K.CKO_SECRET_KEY]
    def op_set(t, ref, attr):
        s = sess[t]
        if attr == "label": tm = [A_bytes(K.CKA_LABEL, objs.label(ref, ":p%d" % (t + 1) + "".join(r.choice("abcdef") for _ in range(r.randint(1, 5)))))]
        elif attr == "id": tm = [A_bytes(K.CKA_ID, objs.rnd(r, r.choice([2, 6, 12])))]
        elif attr == "date": tm = [A_bytes(K.CKA_START_DATE, ("20%02d0%d1%d" % (r.randrange(100), r.randint(1, 9), r.randint(0, 9))).encode())]
        else: tm = [A_bytes(K.CKA_END_DATE, ("21%02d0%d1%d" % (r.randrange(100), r.randint(1, 9), r.randint(0, 9))).encode())]
        g.emit({"f": "C_SetAttributeValue", "s": s, "o": ref, "tmpl": tm}, t)
    rounds = 0
    if stratum in (0, 3) and keys_only():
        # rounds: all processes change (mostly different) attributes of ONE object at the same time; then, with everybody quiet, each reads it: whatever the
        # race did to the values, all running processes must read the same thing (convergence at a quiet point)
        ref = keys_only()[0]; rounds = r.choice([2, 3, 4, 6])
        for rd in range(rounds):
            for t in range(nproc): g.emit({"act": "barrier"}, t)
            for t in range(nproc):
                if r.random() < 0.9: op_set(t, ref, ["label", "id", "date", "end"][t % 4] if r.random() < 0.85 else r.choice(["label", "id", "date", "end"]))
            for t in range(nproc): g.emit({"act": "barrier"}, t)
            for t in range(nproc): g.emit({"act": "readattrs", "s": sess[t], "o": ref, "types": READ_T, "qr": rd}, t)
        for t in range(nproc): g.emit({"act": "barrier"}, t)
    if stratum == 2:
        # batches: ONE process destroys and creates several objects while the others are held at a barrier; then everybody looks. What an observer has
        # to notice in one re-index is a MIXTURE of removed and added files (net growth, net shrinkage, equal count)
        rounds = r.choice([2, 3, 4])
        for rd in range(rounds):
            for t in range(nproc): g.emit({"act": "barrier"}, t)
            m = r.randrange(nproc); s = sess[m]
            acts = ["d"] * r.choice([0, 1, 2, 2, 3]) + ["c"] * r.choice([0, 1, 1, 2])
            r.shuffle(acts)
            for a_ in acts:
                live_ = [x for x in allrefs if g.w.objs.get(x) is not None and g.w.objs[x].alive]
                if a_ == "d" and live_:
                    g.emit({"f": "C_DestroyObject", "s": s, "o": r.choice(live_)}, m)
                else:
                    ref = g.new_obj(); pv = r.random() < 0.3
                    g.emit({"f": "C_CreateObject", "s": s, "tmpl": (mk_key if r.random() < 0.6 else mk_data)(ref, r, pv), "out": ref}, m); allrefs.append(ref); created[m].append(ref)
            for t in range(nproc): g.emit({"act": "barrier"}, t)
            for t in range(nproc):
                if r.random() < 0.8: g.emit({"act": "find", "s": sess[t], "tmpl": [], "batches": []}, t)
        for t in range(nproc): g.emit({"act": "barrier"}, t)
    for t in range(nproc):
        n = r.choice([4, 6, 8, 12]) if tier == "quick" else r.choice([6, 10, 16])
        if rounds: n = r.choice([0, 2, 4])
        for i in range(n):
            s = sess[t]
            x = r.random()
            tgt = r.choice(allrefs)
            if stratum == 0 and keys_only() and x < 0.6:
                # two processes change DIFFERENT attributes of the same object
                ref = keys_only()[0]
                if r.random() < 0.3: g.emit({"act": "find", "s": s, "tmpl": [], "batches": []}, t)
                op_set(t, ref, ["label", "id", "date", "end"][t % 4] if r.random() < 0.85 else r.choice(["label", "id", "date", "end"]))
            elif stratum == 1 and x < 0.5:
                # one destroys what the other modifies
                if t == 0: g.emit({"f": "C_DestroyObject", "s": s, "o": tgt}, t)
                else: op_set(t, tgt, r.choice(["label", "id"]) if g.w.objs.get(tgt) and g.w.objs[tgt].klass == K.CKO_SECRET_KEY else "label")
            elif x < 0.25:
                ref = g.new_obj(); pv = r.random() < 0.4
                g.emit({"f": "C_CreateObject", "s": s, "tmpl": (mk_key if r.random() < 0.6 else mk_data)(ref, r, pv), "out": ref}, t); allrefs.append(ref); created[t].append(ref)
            elif x < 0.45:
                g.emit({"act": "find", "s": s, "tmpl": r.choice([[], [], [A_ulong(K.CKA_CLASS, K.CKO_SECRET_KEY)], [A_bool(K.CKA_PRIVATE, False)]]), "batches": r.choice([[], [1], [2]])}, t)
            elif x < 0.6:
                g.emit({"act": "readattrs", "s": s, "o": tgt, "types": READ_T}, t)
            elif x < 0.8:
                o = g.w.objs.get(tgt)
                op_set(t, tgt, r.choice(["label", "id", "date", "end"]) if o is not None and o.klass == K.CKO_SECRET_KEY else "label")
            elif x < 0.9:
                g.emit({"f": "C_DestroyObject", "s": s, "o": tgt}, t)
            else:
                ref = g.new_obj()
                g.emit({"f": "C_CopyObject", "s": s, "o": tgt, "tmpl": [A_bytes(K.CKA_LABEL, objs.label(ref)), A_bool(K.CKA_TOKEN, True)], "out": ref}, t); allrefs.append(ref)
    # quiescence: everybody done, then every process reads everything, then a cold third copy
    for t in range(nproc): g.emit({"act": "barrier"}, t)
    for t in range(nproc):
        s = sess[t]
        g.emit({"f": "C_Login", "s": s, "user": K.CKU_USER, "pin": up.hex(), "q": True}, t)
        g.emit({"act": "readout", "s": s, "tmpl": [], "types": READ_T, "q": "view"}, t)
    for t in range(nproc): g.emit({"act": "barrier"}, t)
    for t in range(1, nproc): g.emit({"act": "stop"}, t)
    for t in range(nproc): g.emit({"act": "barrier"}, t)
    g.emit({"act": "disk", "data": True, "q": "disk"}, 0)
    g.emit({"act": "stop"}, 0)
    cold = 3 if nproc == 2 else 2
    g.emit({"act": "start", "pid": cold}, 0)
    sc = g.new_sess()
    g.emit({"f": "C_OpenSession", "slot": tok, "flags": RW, "out": sc}, 0)
    g.emit({"f": "C_Login", "s": sc, "user": K.CKU_USER, "pin": up.hex(), "q": True}, 0)
    g.emit({"act": "readout", "s": sc, "tmpl": [], "types": READ_T, "q": "cold"}, 0)
    g.extra["user_pin"] = up.hex(); g.extra["so_pin"] = so.hex(); g.extra["token"] = tok
    return g.plan()

def _v(cls, msg, **kw):
    d = {"class": cls, "msg": msg}; d.update(kw); return d

class Ev:
    __slots__ = ("tid", "k", "pid", "op", "ret", "inv", "retn", "f", "ok")

def check(plan, r):
    viols = []; cov = set(); stats = {}
    def st(k, n=1): stats[k] = stats.get(k, 0) + n
    pids = hist.pid_track(plan)
    invn = {}
    for e in r.hist:
        if e.get("e") == "inv" and "cs" not in e: invn[(e["t"], e["op"])] = e["n"]
    evs = []
    for tid, k, op, ret in hist.walk(plan, r):
        e = Ev(); e.tid = tid; e.k = k; e.pid = pids[tid][k]; e.op = op; e.ret = ret; e.inv = invn.get((tid, k), ret["n"]); e.retn = ret["n"]; e.f = hist.opname(op); e.ok = ret.get("rv") == 0
        evs.append(e)
    res = r.result or {}
    st("lock_blocked", res.get("fsops", {}).get("lock_blocked", 0)); st("fs_switches", res.get("switches", {}).get("Y2", 0))
    policy = plan["knobs"].get("policy")
    # lock protocol: with the file locks in place no process ever reads a file between another process's truncate and the end of that store
    for m in hist.mons(r, "read_in_rewrite_window"):
        viols.append(_v("C15.lock_protocol", "process %s read %s while process %s was between the truncate and the end of its store of that file: the cross-process file lock does not cover the rewrite" % (m["d"]["reader"], m["d"]["path"].split("/")[-1][:24], m["d"]["writer"]),
                        call="read", op=m.get("op"), policy=policy, manifestation="torn_read")); break
    # ---- object life intervals and attribute writes, from acknowledged calls
    create = {}   # ref -> Ev (OK creation)
    create_try = {}  # ref -> Ev of any creation attempt
    destroys = {}  # ref -> [Ev] (attempts), ok flagged
    writes = {}    # (ref, type) -> [(inv, retn, value, Ev)]
    priv = {}; klass = {}; copy_src = {}
    for e in evs:
        if e.f in ("C_CreateObject", "C_CopyObject") and e.op.get("out"):
            create_try[e.op["out"]] = e
            if e.ok:
                ref = e.op["out"]; create[ref] = e
                if e.f == "C_CreateObject":
                    priv[ref] = bool(tbool(e.op["tmpl"], K.CKA_PRIVATE)); klass[ref] = int.from_bytes(tget(e.op["tmpl"], K.CKA_CLASS) or b"\0", "little")
                    for x in e.op["tmpl"]:
                        if x[1] == "x": writes.setdefault((ref, x[0]), []).append((e.inv, e.retn, norm_supplied(x[0], bytes.fromhex(x[2])), e))
                else:
                    src = e.op.get("o"); copy_src[ref] = src; priv[ref] = priv.get(src, False); klass[ref] = klass.get(src)
                    for x in e.op["tmpl"]:
                        if x[1] == "x": writes.setdefault((ref, x[0]), []).append((e.inv, e.retn, bytes.fromhex(x[2]), e))
        elif e.f == "C_DestroyObject" and isinstance(e.op.get("o"), str):
            destroys.setdefault(e.op["o"], []).append(e)
        elif e.f == "C_SetAttributeValue" and isinstance(e.op.get("o"), str) and e.ok:
            for x in e.op["tmpl"]:
                if x[1] == "x": writes.setdefault((e.op["o"], x[0]), []).append((e.inv, e.retn, bytes.fromhex(x[2]), e))
    global writes_all, events_all
    writes_all = writes; events_all = evs
    def destroyed_before(ref, n):   # an acknowledged destroy that returned before event n
        return any(d.ok and d.retn < n for d in destroys.get(ref, []))
    def destroy_started_before(ref, n):
        return any(d.inv < n and (d.ok or True) for d in destroys.get(ref, []) if d.ok or d.ret.get("rv") != K.CKR_OBJECT_HANDLE_INVALID)
    def candidates(ref, typ, inv, retn):
        """values a read of (ref,typ) during [inv,retn] may return: writes that started before the read ended and are not definitely overwritten before it began"""
        ws = [w_ for w_ in writes.get((ref, typ), []) if w_[0] < retn]
        if not any(w_[1] < inv for w_ in ws): return []      # no write completed before the read began: the library-chosen default is a legitimate answer and the model does not know it
        out = []
        for w_ in ws:
            over = any(o_[0] > w_[1] and o_[1] < inv for o_ in ws if o_ is not w_)
            if not over: out.append(w_[2])
        return out
    # per-process login state (sequential inside a process)
    w = World()
    overlapping = 0
    for i, e in enumerate(evs):
        for e2 in evs[i + 1: i + 12]:
            if e2.pid != e.pid and e2.inv < e.retn and e.inv < e2.retn and e.f.startswith("C_") and e2.f.startswith("C_"): overlapping += 1
    st("overlapping_calls", overlapping)
    objs_touched = {}
    for e in evs:
        if isinstance(e.op.get("o"), str) and e.f in ("C_SetAttributeValue", "C_DestroyObject"):
            objs_touched.setdefault(e.op["o"], set()).add(e.pid)
            if e.f == "C_SetAttributeValue": objs_touched.setdefault((e.op["o"], "attrs"), {}).setdefault(e.pid, set()).update(x[0] for x in e.op["tmpl"])
    for ref, ps in objs_touched.items():
        if isinstance(ref, str) and len(ps) > 1: st("contended_same_object")
        if isinstance(ref, tuple) and len(ps) > 1:
            al = list(ps.values())
            if any(not (al[i] & al[j]) for i in range(len(al)) for j in range(i + 1, len(al))): st("different_attrs_same_object")
    tok = plan.get("token")
    qviews = {}      # (object, attribute) -> {process | "cold": (value read at quiescence, op)}
    rviews = {}      # (round, object, attribute) -> {process: (value read at the quiet point after the round, op)}
    for e in evs:
        P = w.proc(e.pid)
        s = w.sess(e.pid, e.op.get("s")) if "s" in e.op else None
        user_in = s is not None and w.user_logged_in(e.pid, s.tok)
        q = e.op.get("q")
        # ---- searches (interval semantics; exact when nothing overlaps)
        if e.f in ("@find", "@readout") and s is not None and e.ok:
            tmpl = e.op.get("tmpl", [])
            def matches(ref):
                for x in tmpl:
                    if x[0] == K.CKA_CLASS and klass.get(ref) != int.from_bytes(bytes.fromhex(x[2]), "little"): return False
                    if x[0] == K.CKA_PRIVATE and priv.get(ref, False) != (x[2] == "01"): return False
                return True
            got = []
            for ent in e.ret.get("ids", []):
                ref = ent.get("ref") or P.h2obj.get(ent["h"])
                got.append(ref)
            must = [ref for ref, c in create.items() if c.retn < e.inv and not destroy_started_before(ref, e.retn) and (not priv[ref] or user_in) and matches(ref) and klass.get(ref) is not None]
            may = [ref for ref, c in create_try.items() if c.inv < e.retn and not destroyed_before(ref, e.inv) and (not priv.get(ref, False) or user_in)]
            foreign_c = [ref for ref in got if ref in create and create[ref].pid != e.pid]
            if foreign_c: st("search_sees_foreign_create"); st("cross_process_observation")
            if any(destroyed_before(ref, e.inv) and any(d.pid != e.pid for d in destroys[ref] if d.ok) for ref in create): st("search_misses_foreign_destroy"); st("cross_process_observation")
            where = {"view": "quiescence", "cold": "cold_copy"}.get(q, "run")
            if q == "view": st("quiescence_checked")
            if q == "cold": st("cold_copy_checked")
            unident = any(x is None for x in got)
            for ref in must:
                if ref not in got and not (unident and where == "run" and policy == "io"):
                    c = create[ref]
                    viols.append(_v("C15.missing", "process %d does not find object %s, created by process %d (acknowledged at event %d, before this search began at %d) and not destroyed [%s, policy %s]" % (e.pid, ref, c.pid, c.retn, e.inv, where, policy),
                                    call="C_FindObjects", op=e.k, where=where, foreign=(c.pid != e.pid), policy=policy, manifestation="committed_object_missing"))
            for ref in got:
                if ref is None:
                    if where != "run" or policy == "call":
                        viols.append(_v("C15.unidentified", "process %d finds an object whose label cannot be read [%s]" % (e.pid, where), call="C_FindObjects", op=e.k, where=where, policy=policy, manifestation="corrupt_object"))
                    continue
                if ref not in may and ref in create_try:
                    viols.append(_v("C15.ghost", "process %d finds object %s which %s [%s, policy %s]" % (e.pid, ref, "was destroyed (acknowledged) before the search began" if destroyed_before(ref, e.inv) else "is private while the user is not logged in" if priv.get(ref) and not user_in else "does not exist yet", where, policy),
                                    call="C_FindObjects", op=e.k, where=where, policy=policy, manifestation="destroyed_object_found" if destroyed_before(ref, e.inv) else "ghost"))
            if len([x for x in got if x]) != len(set(x for x in got if x)):
                viols.append(_v("C15.duplicate", "process %d finds an object twice: %s [%s]" % (e.pid, got, where), call="C_FindObjects", op=e.k, where=where, policy=policy, manifestation="duplicated_object"))
            cov.add("find|%s|%s|foreign%d" % (policy, where, min(len(foreign_c), 2)))
            # attribute values in read-outs
            if e.f == "@readout":
                for ent, oj in zip(e.ret.get("ids", []), e.ret.get("objs", [])):
                    ref = ent.get("ref")
                    if ref: viols += check_values(e, ref, oj["attrs"], candidates, where, policy, st, create, copy_src)
                    if ref and q in ("view", "cold"):
                        for ts, a in oj["attrs"].items():
                            if "v" in a: qviews.setdefault((ref, int(ts)), {})[("cold" if q == "cold" else e.pid)] = (a["v"], e.k)
        elif e.f == "@readattrs" and isinstance(e.op.get("o"), str) and e.op["o"] in create:
            ref = e.op["o"]; at = e.ret.get("attrs", {})
            bound = any(rr == ref for rr in P.h2obj.values())
            if bound:
                if destroyed_before(ref, e.inv):
                    st("stale_handle_rejected"); st("cross_process_observation")
                    for ts, a in at.items():
                        if "v" in a:
                            viols.append(_v("C15.stale_handle", "process %d still reads %s of object %s through its old handle although the object was destroyed (acknowledged) by another process before" % (e.pid, K.name("CKA", int(ts)), ref), call="C_GetAttributeValue", op=e.k, policy=policy, manifestation="stale_handle_accepted")); break
                        elif a.get("rv") not in (K.CKR_OBJECT_HANDLE_INVALID, None) and not destroy_started_before(ref, 0):
                            pass
                elif not destroy_started_before(ref, e.retn) and (not priv.get(ref) or user_in):
                    viols += check_values(e, ref, at, candidates, "run", policy, st, create, copy_src)
                    if "qr" in e.op:
                        for ts, a in at.items():
                            if "v" in a: rviews.setdefault((e.op["qr"], ref, int(ts)), {})[e.pid] = (a["v"], e.k)
        elif e.f in ("C_SetAttributeValue", "C_DestroyObject") and isinstance(e.op.get("o"), str) and e.op["o"] in create:
            ref = e.op["o"]
            bound = any(rr == ref for rr in P.h2obj.values())
            if bound and destroyed_before(ref, e.inv) and any(d.pid != e.pid and d.ok and d.retn < e.inv for d in destroys.get(ref, [])):
                st("stale_handle_rejected"); st("cross_process_observation")
                if e.ok:
                    viols.append(_v("C15.stale_handle", "process %d: %s succeeded on object %s through a handle that must be invalid (destroyed by another process, acknowledged before the call began)" % (e.pid, e.f, ref), call=e.f, op=e.k, policy=policy, manifestation="stale_handle_accepted"))
                elif e.ret.get("rv") != K.CKR_OBJECT_HANDLE_INVALID:
                    viols.append(_v("C15.stale_code", "process %d: %s on a destroyed object returned %s (CKR_OBJECT_HANDLE_INVALID expected)" % (e.pid, e.f, K.rvname(e.ret.get("rv"))), call=e.f, op=e.k, policy=policy, manifestation="stale_handle_code"))
            cov.add("%s|%s|%s|contended%d" % (e.f, policy, K.rvname(e.ret.get("rv")), len(objs_touched.get(ref, ())) > 1))
        elif e.f == "@disk" and q == "disk":
            st("disk_checked")
            viols += check_disk(e, plan, create, destroys, writes, priv, policy, copy_src)
        w.apply(e.pid, e.op, e.ret)
    # ---- convergence: at quiescence every process that was running all along reads what a process started cold reads (whatever the races did to the
    # values - that is judged above - nobody may be left serving a private, superseded copy)
    for (ref, t_), by in sorted(qviews.items(), key=str):
        if "cold" not in by: continue
        cold_v = by["cold"][0]
        for who, (v, kk) in by.items():
            if who == "cold": continue
            st("convergence_checked")
            if v != cold_v:
                viols.append(_v("C15.divergent", "at quiescence process %s reads %s = %s of object %s, a process started cold reads %s: the running process serves a superseded copy [policy %s]" % (who, K.name("CKA", t_), fmt(decode_read(t_, {"v": v})), ref, fmt(decode_read(t_, {"v": cold_v})), policy),
                                call="C_GetAttributeValue", op=kk, where="quiescence", policy=policy, attr=K.name("CKA", t_), manifestation="views_disagree_at_quiescence"))
                break
    for (rd, ref, t_), by in sorted(rviews.items(), key=str):
        if len(by) < 2: continue
        st("quiet_point_agreement_checked")
        vals = sorted(by.items())
        if any(v[0] != vals[0][1][0] for _, v in vals[1:]):
            viols.append(_v("C15.divergent", "quiet point after round %d (nobody is writing): the processes read different %s of object %s: %s [policy %s]" % (rd, K.name("CKA", t_), ref, ", ".join("process %s: %s" % (p_, fmt(decode_read(t_, {"v": v[0]}))) for p_, v in vals), policy),
                            call="C_GetAttributeValue", op=vals[0][1][1], where="quiet_point", policy=policy, attr=K.name("CKA", t_), manifestation="views_disagree_at_quiet_point"))
            break
    r.aux["c15"] = (cov, stats)
    seen = set(); out = []
    for v in viols:
        key = (v["class"], v.get("manifestation"), v.get("where"))
        if key in seen: continue
        seen.add(key); out.append(v)
    return out[:6]

events_all = []      # every call event of the run being judged
writes_all = {}      # (object, attribute) -> [(inv, ret, value, event)] of the run being judged (set by check(); C18 sets it too)

def check_values(e, ref, attrs, candidates, where, policy, st, create, copy_src):
    out = []
    if ref in copy_src: types = [K.CKA_LABEL]      # a copy inherits whatever its source held at that instant; only what the copy template set is predicted
    else: types = [int(t) for t in attrs]
    for t_ in types:
        a = attrs.get(str(t_))
        if a is None: continue
        cands = candidates(ref, t_, e.inv, e.retn)
        if not cands: continue
        v = decode_read(t_, a)
        if isinstance(v, tuple):
            if v[0] == "UNAVAILABLE": continue
            out.append(_v("C15.unreadable", "process %d: %s of object %s answers %s [%s, policy %s]" % (e.pid, K.name("CKA", t_), ref, v, where, policy), call="C_GetAttributeValue", op=e.k, where=where, policy=policy, attr=K.name("CKA", t_), manifestation="unreadable_attribute")); continue
        if any(w_[3].pid != e.pid for w_ in []): pass
        if not any(same(t_, c, v) for c in cands):
            lost = len(cands) == 1
            # the known lost-update finding needs two processes writing the SAME object at the SAME time (one commits inside the other's refresh..lock
            # window); a lost or stale value without such an overlap has another cause
            c_ = create.get(ref)
            is_default = bool("v" in a and (a["v"] == "" or set(a["v"]) <= {"0"}))
            observed = bool(c_ is not None and any(o_.pid != c_.pid and o_.f in ("@find", "@readout", "@readattrs", "C_SetAttributeValue", "C_CopyObject", "C_DestroyObject") and o_.inv < c_.retn and c_.inv < o_.retn for o_ in events_all))
            wr = [w_ for (r_, _t), lst in writes_all.items() if r_ == ref for w_ in lst]
            overlap = any(a_[3].pid != b_[3].pid and a_[0] < b_[1] and b_[0] < a_[1] for i_, a_ in enumerate(wr) for b_ in wr[i_ + 1:])
            out.append(_v("C15.lost_update" if where != "run" else "C15.wrong_value", "process %d reads %s = %s of object %s; the acknowledged writes allow only %s [%s, policy %s]%s" % (e.pid, K.name("CKA", t_), fmt(v), ref, [fmt(c) for c in cands[:3]], where, policy,
                          " - an acknowledged change was lost" if lost else ""), call="C_GetAttributeValue", op=e.k, where=where, policy=policy, attr=K.name("CKA", t_), manifestation="lost_update" if where != "run" else "stale_or_lost_value", overlapping_writes=overlap, value_is_default=is_default, created_under_observation=observed))
        else:
            st("foreign_value_read")
    return out

def check_disk(e, plan, create, destroys, writes, priv, policy, copy_src):
    out = []
    toks = decoder.decode_tree(e.ret.get("tree", {}))
    so = bytes.fromhex(plan["so_pin"])
    seen = {}
    for dname, td in toks.items():
        mk = decoder.unwrap_master_key(td.so_blob, so)
        for fname, parsed in td.objects.items():
            if isinstance(parsed, Exception):
                out.append(_v("C15.disk_corrupt", "at quiescence object file %s does not parse: %s" % (fname[:13], parsed), call="disk", op=e.k, where="disk", policy=policy, manifestation="corrupt_object")); continue
            gen_, attrs = parsed
            if not attrs:
                out.append(_v("C15.disk_corrupt", "at quiescence object file %s is empty" % fname[:13], call="disk", op=e.k, where="disk", policy=policy, manifestation="corrupt_object")); continue
            view = decoder.object_view(attrs, mk)
            lab = view.get(K.CKA_LABEL); ref = ref_of_label(lab) if isinstance(lab, (bytes, bytearray)) else None
            if ref is None:
                out.append(_v("C15.disk_corrupt", "at quiescence object file %s has no decodable label" % fname[:13], call="disk", op=e.k, where="disk", policy=policy, manifestation="corrupt_object")); continue
            if ref in seen:
                out.append(_v("C15.duplicate", "object %s exists in two files (%s, %s)" % (ref, seen[ref][:13], fname[:13]), call="disk", op=e.k, where="disk", policy=policy, manifestation="duplicated_object"))
            seen[ref] = fname
    for ref, c in create.items():
        gone = any(d.ok for d in destroys.get(ref, []))
        if not gone and ref not in seen:
            out.append(_v("C15.missing", "at quiescence the acknowledged object %s (created by process %d) has no file" % (ref, c.pid), call="disk", op=e.k, where="disk", policy=policy, foreign=False, manifestation="committed_object_missing"))
        if gone and ref in seen:
            out.append(_v("C15.ghost", "at quiescence object %s still has a file although its destruction was acknowledged" % ref, call="disk", op=e.k, where="disk", policy=policy, manifestation="destroyed_object_found"))
    return out

def cover(plan, r):
    cov, stats = r.aux.get("c15", (set(), {}))
    return {"keys": sorted(cov), "nontrivial": stats.get("cross_process_observation", 0) > 0, "stats": stats}

TECHNIQUE = "deterministic simulation of several processes: symbol-renamed library copies over one simulated disk with per-process POSIX locks, seeded schedules at call and file-operation granularity, interval/linearizability oracle plus exact check at quiescence"
CLAIM = ("Seeded exploration of interleavings of 2-3 complete library instances (own singletons, handles, login) sharing one simulated token directory; the scheduler decides every switch (at call boundaries, or between any two "
         "file operations) from the run seed, fcntl locks are owned per simulated process and block through the scheduler. Every search, read and stale-handle use is judged with interval semantics against the acknowledged "
         "history (exact when calls do not overlap); at quiescence all processes' views, the independently decoded disk and a third copy started cold must show exactly the acknowledged objects with every acknowledged "
         "attribute change present; deadlocks and step-budget overruns are violations. Evidence, not proof.")
NOTE = "Trusted: simfs lock semantics (whole-file POSIX locks per simulated pid, dropped on any close), that one library copy per process is a faithful process (no shared memory between copies: checked by symbol renaming of every defined symbol). Every sixth plan runs the processes on the SQLite object store (own connection each, locks arbitrated by the SQLite VFS stub) at call granularity only."
