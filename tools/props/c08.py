"""C08 - attribute policy: read-only, one-way and history attributes (DESIGN 4, C08)."""
import p11const as K
from p11const import A_bool, A_ulong, A_bytes
from store import StoreW, decode_read, fmt
from gen import RW, RO
from model import World, tbool, tget, tulong
import hist, objs, mechs

LEVEL = "exploration"
QUICK_RUNS = 1500
QUICK_BUDGET_S = 90
THOROUGH_RUNS = 10 ** 7
RULE = ("seeded object life histories: secret/private/public keys, data and certificates made by every operation kind (C_CreateObject, C_GenerateKey, C_GenerateKeyPair, C_UnwrapKey, C_DeriveKey incl. the three "
        "CKM_CONCATENATE_* and ECDH, C_CopyObject chains up to depth 4, derive from derived) with every combination of CKA_SENSITIVE/CKA_EXTRACTABLE/CKA_MODIFIABLE/CKA_COPYABLE/CKA_DESTROYABLE, then set/copy/"
        "destroy attempts in user, SO and public sessions: flag toggles in both directions, CKA_TRUSTED by user and by SO, templates with exactly one forbidden attribute (the four history attributes, class, key "
        "type, key material, token/private via set) at a random position among allowed ones, restarts in between. After every step the policy and history attributes of the touched objects are read back and "
        "compared with a model that carries, per key, its origin and whether it was ever non-sensitive / ever extractable. Distinct+non-trivial: (operation, origin of the object, flag state, attribute, outcome).")
PROBES = ["history_attrs_compared", "gate_modifiable", "gate_copyable", "gate_destroyable", "trusted_by_user_refused", "trusted_by_so", "private_to_public_copy_refused", "history_attr_in_template_refused",
          "oneway_sensitive", "oneway_extractable", "readonly_unchanged_checked", "copy_equal_checked", "derived_keys", "unwrapped_keys", "generated_keys", "copy_depth2plus", "after_restart"]
DEATH_IS_VIOLATION = ()

HIST = [K.CKA_LOCAL, K.CKA_ALWAYS_SENSITIVE, K.CKA_NEVER_EXTRACTABLE, K.CKA_KEY_GEN_MECHANISM]
POLICY_T = [K.CKA_CLASS, K.CKA_KEY_TYPE, K.CKA_TOKEN, K.CKA_PRIVATE, K.CKA_LABEL, K.CKA_SENSITIVE, K.CKA_EXTRACTABLE, K.CKA_MODIFIABLE, K.CKA_COPYABLE, K.CKA_DESTROYABLE, K.CKA_TRUSTED, K.CKA_WRAP_WITH_TRUSTED,
            K.CKA_LOCAL, K.CKA_ALWAYS_SENSITIVE, K.CKA_NEVER_EXTRACTABLE, K.CKA_KEY_GEN_MECHANISM, K.CKA_VALUE, K.CKA_VALUE_LEN, K.CKA_MODULUS, K.CKA_EC_PARAMS, K.CKA_ID]
IMMUTABLE = [K.CKA_CLASS, K.CKA_KEY_TYPE, K.CKA_MODULUS, K.CKA_EC_PARAMS, K.CKA_LOCAL, K.CKA_ALWAYS_SENSITIVE, K.CKA_NEVER_EXTRACTABLE, K.CKA_KEY_GEN_MECHANISM, K.CKA_TOKEN, K.CKA_PRIVATE]
UNAVAIL = (1 << 64) - 1

class GW(StoreW):
    def __init__(self, *a, **kw):
        super().__init__(*a, **kw)
        self.readtypes = POLICY_T

    def new_key_tmpl(self, ref, token, private, ktype=None, vlen=None, sensitive=None, extractable=None):
        r = self.r
        sensitive = (r.random() < 0.4) if sensitive is None else sensitive
        extractable = (r.random() < 0.7) if extractable is None else extractable
        t = super().new_key_tmpl(ref, token, private, ktype=ktype, vlen=vlen, sensitive=sensitive, extractable=extractable)
        for a, p in ((K.CKA_MODIFIABLE, 0.12), (K.CKA_COPYABLE, 0.12), (K.CKA_DESTROYABLE, 0.12)):
            if r.random() < p: t.append(A_bool(a, False))
        if r.random() < 0.1: t.append(A_bool(K.CKA_WRAP_WITH_TRUSTED, True))
        return t

    def s_create(self, tid=0, pid=1, **kw):
        r = self.r
        kind = kw.get("kind") or r.choice(["aes", "generic", "des3", "rsa_priv", "ec_priv", "rsa_pub", "data", "cert", "aes", "generic"])
        kw["kind"] = kind
        fl = {"sensitive": r.random() < 0.4, "extractable": r.random() < 0.7}
        kw.setdefault("flags", fl)
        ex = []
        for a, p in ((K.CKA_MODIFIABLE, 0.12), (K.CKA_COPYABLE, 0.12), (K.CKA_DESTROYABLE, 0.12)):
            if r.random() < p: ex.append(A_bool(a, False))
        kw2 = dict(kw)
        ref = super(StoreW, self).s_create(tid, pid, extra=ex, **kw2)
        if ref and ref in self.w.objs: self.after_create(tid, pid, self.ops[tid][-1]["s"], ref)
        return ref

    def s_derivekey(self, tid=0, pid=1):
        """CKM_CONCATENATE_BASE_AND_KEY with two keys of various histories"""
        r = self.r
        token = r.random() < 0.5; private = r.random() < 0.5
        s = self.pick_sess_for_new(pid, token, private)
        if not s: return False
        ks = self.usable(pid, ["aes", "generic"], same_tok=s.tok)
        if len(ks) < 1: return False
        b = r.choice(ks); k2 = r.choice(ks)
        ref = self.new_obj()
        t = self.new_key_tmpl(ref, token, private, ktype=K.CKK_GENERIC_SECRET)
        self.emit({"f": "C_DeriveKey", "s": s.ref, "mech": mechs.concat_key(k2.ref), "base": b.ref, "tmpl": t, "out": ref, "second": k2.ref}, tid)
        self.info[ref] = {"kind": "generic", "secret": {}}
        self.after_create(tid, pid, s.ref, ref)
        return ref

    def s_toggle(self, tid=0, pid=1):
        r = self.r
        lo = [o for o in self.live_objs(pid) if o.ref in self.P(pid).h2obj.values()]
        live = self.live_sessions(pid)
        if not lo or not live: return False
        o = r.choice(lo)
        ss = [s for s in live if s.tok == o.tok]
        if not ss: return False
        s = r.choice(ss)
        attr = r.choice([K.CKA_SENSITIVE, K.CKA_EXTRACTABLE, K.CKA_MODIFIABLE, K.CKA_COPYABLE, K.CKA_DESTROYABLE, K.CKA_TRUSTED, K.CKA_WRAP_WITH_TRUSTED, K.CKA_SENSITIVE, K.CKA_EXTRACTABLE])
        val = r.random() < 0.5
        self.emit({"act": "readattrs", "s": s.ref, "o": o.ref, "types": POLICY_T, "before": True}, tid)
        self.emit({"f": "C_SetAttributeValue", "s": s.ref, "o": o.ref, "tmpl": [A_bool(attr, val)], "toggle": True}, tid, ok=False)
        self.emit({"act": "readattrs", "s": s.ref, "o": o.ref, "types": POLICY_T, "after": True}, tid)
        return True

    def s_forbidden(self, tid=0, pid=1):
        """set/copy/create-type call with one forbidden attribute among allowed ones"""
        r = self.r
        live = self.live_sessions(pid)
        if not live: return False
        bad = r.choice([A_bool(K.CKA_LOCAL, r.random() < 0.5), A_bool(K.CKA_ALWAYS_SENSITIVE, r.random() < 0.5), A_bool(K.CKA_NEVER_EXTRACTABLE, r.random() < 0.5), A_ulong(K.CKA_KEY_GEN_MECHANISM, r.choice([K.CKM_AES_KEY_GEN, UNAVAIL]))])
        x = r.random()
        lo = [o for o in self.live_objs(pid) if o.ref in self.P(pid).h2obj.values()]
        if x < 0.35 and lo:
            o = r.choice(lo); ss = [s for s in live if s.tok == o.tok]
            if not ss: return False
            s = r.choice(ss)
            extra = r.choice([bad, bad, A_ulong(K.CKA_CLASS, K.CKO_DATA), A_ulong(K.CKA_KEY_TYPE, K.CKK_DES), A_bool(K.CKA_TOKEN, not o.token), A_bool(K.CKA_PRIVATE, not o.private), A_bytes(K.CKA_MODULUS, b"\x01\x02"), A_ulong(K.CKA_VALUE_LEN, 16)])
            good = [A_bytes(K.CKA_LABEL, objs.label(o.ref, ":f")), A_bytes(K.CKA_ID, objs.rnd(r, 3))] if self.info.get(o.ref, {}).get("kind", "data") != "data" else [A_bytes(K.CKA_LABEL, objs.label(o.ref, ":f"))]
            pos = r.randint(0, len(good)); tm = good[:pos] + [extra] + good[pos:]
            self.emit({"act": "readattrs", "s": s.ref, "o": o.ref, "types": POLICY_T, "before": True}, tid)
            self.emit({"f": "C_SetAttributeValue", "s": s.ref, "o": o.ref, "tmpl": tm, "forbidden": extra[0]}, tid, ok=False)
            self.emit({"act": "readattrs", "s": s.ref, "o": o.ref, "types": POLICY_T, "after": True}, tid)
        elif x < 0.6 and lo:
            o = r.choice(lo); ss = [s for s in live if s.tok == o.tok]
            if not ss: return False
            s = r.choice(ss); ref = self.new_obj()
            extra = r.choice([bad, bad, A_ulong(K.CKA_CLASS, K.CKO_DATA), A_bytes(K.CKA_MODULUS, b"\x01\x02")])
            good = [A_bytes(K.CKA_LABEL, objs.label(ref)), A_bool(K.CKA_TOKEN, r.random() < 0.5)]
            pos = r.randint(0, len(good)); tm = good[:pos] + [extra] + good[pos:]
            self.emit({"f": "C_CopyObject", "s": s.ref, "o": o.ref, "tmpl": tm, "out": ref, "forbidden": extra[0]}, tid, ok=False)
            self.info[ref] = self.info.get(o.ref, {"kind": "data", "secret": {}})
        else:
            # creation-type calls naming a history attribute
            which = r.choice(["create", "generate", "unwrap", "derive"])
            token = r.random() < 0.5; private = r.random() < 0.5
            s = self.pick_sess_for_new(pid, token, private)
            if not s: return False
            ref = self.new_obj()
            if which == "create":
                tm, info = objs.make(r.choice(["aes", "generic", "rsa_priv", "ec_priv"]), ref, r, token=token, private=private); self.info[ref] = info
                tm.insert(r.randint(0, len(tm)), bad)
                self.emit({"f": "C_CreateObject", "s": s.ref, "tmpl": tm, "out": ref, "forbidden": bad[0]}, tid, ok=False)
            elif which == "generate":
                tm = self.new_key_tmpl(ref, token, private, vlen=16); tm.insert(r.randint(0, len(tm)), bad)
                self.emit({"f": "C_GenerateKey", "s": s.ref, "mech": mechs.simple(K.CKM_AES_KEY_GEN), "tmpl": tm, "out": ref, "forbidden": bad[0]}, tid, ok=False); self.info[ref] = {"kind": "aes", "secret": {}}
            elif which == "derive":
                bs = self.usable(pid, ["aes", "generic"], same_tok=s.tok)
                if not bs: return False
                tm = self.new_key_tmpl(ref, token, private, ktype=K.CKK_GENERIC_SECRET); tm.insert(r.randint(0, len(tm)), bad)
                self.emit({"f": "C_DeriveKey", "s": s.ref, "mech": mechs.kdsd(K.CKM_CONCATENATE_BASE_AND_DATA, b"12345678"), "base": r.choice(bs).ref, "tmpl": tm, "out": ref, "forbidden": bad[0]}, tid, ok=False); self.info[ref] = {"kind": "generic", "secret": {}}
            else:
                wks = self.usable(pid, ["aes"], same_tok=s.tok)
                keys = [o for o in self.usable(pid, ["aes", "generic"], same_tok=s.tok) if o.extractable is not False]
                if not wks or not keys: return False
                wk = r.choice(wks); k = r.choice(keys); name = "fw%d" % len(self.ops[tid])
                self.emit({"f": "C_WrapKey", "s": s.ref, "mech": mechs.simple(K.CKM_AES_KEY_WRAP_PAD), "wkey": wk.ref, "key": k.ref, "outcap": 256, "save": name}, tid)
                tm = self.new_key_tmpl(ref, token, private, ktype=K.CKK_GENERIC_SECRET); tm.insert(r.randint(0, len(tm)), bad)
                self.emit({"f": "C_UnwrapKey", "s": s.ref, "mech": mechs.simple(K.CKM_AES_KEY_WRAP_PAD), "ukey": wk.ref, "in": {"from": name}, "tmpl": tm, "out": ref, "forbidden": bad[0]}, tid, ok=False); self.info[ref] = {"kind": "generic", "secret": {}}
        return True

    def s_so_session(self, tid=0, pid=1):
        """switch one token to an SO session (for CKA_TRUSTED), later back"""
        r = self.r; t = r.choice(self.toks()); P = self.P(pid)
        ss = [s for s in self.live_sessions(pid, t) if s.rw]
        if not ss or any(not s.rw for s in self.live_sessions(pid, t)): return False
        s = ss[0]
        if P.login.get(t): self.emit({"f": "C_Logout", "s": s.ref}, tid)
        who = r.choice(["so", "so", "user", "none"])
        if who == "so": self.emit({"f": "C_Login", "s": s.ref, "user": K.CKU_SO, "pin": self.w.toks[t].so_pin.hex()}, tid)
        elif who == "user": self.emit({"f": "C_Login", "s": s.ref, "user": K.CKU_USER, "pin": self.w.toks[t].user_pin.hex()}, tid)
        if who != "user": self.emit({"act": "find", "s": s.ref, "tmpl": [], "batches": []}, tid)
        # trusted attempts on public keys/certs
        pubs = [o for o in self.live_objs(pid, t) if not o.private]
        for o in r.sample(pubs, min(len(pubs), 2)):
            self.emit({"act": "readattrs", "s": s.ref, "o": o.ref, "types": POLICY_T, "before": True}, tid)
            self.emit({"f": "C_SetAttributeValue", "s": s.ref, "o": o.ref, "tmpl": [A_bool(K.CKA_TRUSTED, r.random() < 0.8)], "toggle": True}, tid, ok=False)
            self.emit({"act": "readattrs", "s": s.ref, "o": o.ref, "types": POLICY_T, "after": True}, tid)
        # SoftHSM only takes CKA_TRUSTED at creation time: a public object created with CKA_TRUSTED = true in whatever state this is
        for _ in range(r.choice([1, 1, 2])):
            ref = self.new_obj()
            tm, info = objs.make(r.choice(["cert", "rsa_pub", "aes", "generic", "ec_pub"]), ref, r, token=r.random() < 0.7, private=False)
            tm.insert(r.randint(0, len(tm)), A_bool(K.CKA_TRUSTED, True)); self.info[ref] = info
            self.emit({"f": "C_CreateObject", "s": s.ref, "tmpl": tm, "out": ref, "trusted_create": True}, tid, ok=(who == "so"))
        if P.login.get(t) != "U":
            if P.login.get(t): self.emit({"f": "C_Logout", "s": s.ref}, tid)
            self.emit({"f": "C_Login", "s": s.ref, "user": K.CKU_USER, "pin": self.w.toks[t].user_pin.hex()}, tid)
            self.emit({"act": "find", "s": s.ref, "tmpl": [], "batches": []}, tid)
        return True

    def s_gate(self, tid=0, pid=1):
        """copy / destroy attempts (gates COPYABLE, DESTROYABLE) incl. private -> public copies"""
        r = self.r
        lo = [o for o in self.live_objs(pid) if o.ref in self.P(pid).h2obj.values()]
        if not lo: return False
        o = r.choice(lo)
        ss = [s for s in self.live_sessions(pid) if s.tok == o.tok]
        if not ss: return False
        s = r.choice(ss)
        if r.random() < 0.6:
            ref = self.new_obj()
            tm = [A_bytes(K.CKA_LABEL, objs.label(ref)), A_bool(K.CKA_TOKEN, r.random() < 0.5)]
            if r.random() < 0.5: tm.append(A_bool(K.CKA_PRIVATE, r.random() < 0.5))
            if r.random() < 0.3: tm.append(A_bool(r.choice([K.CKA_SENSITIVE, K.CKA_EXTRACTABLE, K.CKA_MODIFIABLE, K.CKA_COPYABLE, K.CKA_DESTROYABLE]), r.random() < 0.5))
            self.emit({"f": "C_CopyObject", "s": s.ref, "o": o.ref, "tmpl": tm, "out": ref, "gate": True}, tid, ok=False)
            self.info[ref] = self.info.get(o.ref, {"kind": "data", "secret": {}})
            self.emit({"act": "readattrs", "s": s.ref, "o": ref, "types": POLICY_T, "pin": True, "copyof": o.ref}, tid)
            self.emit({"act": "readattrs", "s": s.ref, "o": o.ref, "types": POLICY_T, "copysrc": ref}, tid)
        else:
            self.emit({"f": "C_DestroyObject", "s": s.ref, "o": o.ref, "gate": True}, tid, ok=False)
        return True

W = {"create": 16, "gen": 8, "genpair": 3, "unwrap": 7, "derive": 7, "derivekey": 7, "copy": 4, "gate": 14, "toggle": 22, "forbidden": 14, "so_session": 4, "restart": 1.5, "readout": 3}

def gen(seed, tier, index):
    g = GW(seed, "C08")
    r = g.r; g.max_objs = 14
    g.begin()
    for t in g.toks():
        g.s_open(tok=t, rw=True); g.s_login(user=K.CKU_USER, tok=t)
    for _ in range(3): g.s_create(kind=r.choice(["aes", "generic"]), flags={"sensitive": r.random() < 0.3, "extractable": True})
    n = r.choice([8, 12, 18, 26]) if tier == "quick" else r.choice([12, 24, 40])
    for _ in range(n):
        name = g.step(W)
        if name == "restart": g.relogin_all()
    # CKA_TRUSTED = true in the template of EVERY kind of creating call (not only C_CreateObject): a few of the generate / unwrap / derive / copy / key-pair
    # calls of the plan get it added afterwards; such a call may succeed only while the SO is logged in
    for op in g.ops[0]:
        if op.get("f") in ("C_GenerateKey", "C_UnwrapKey", "C_DeriveKey", "C_CopyObject", "C_GenerateKeyPair") and not op.get("trusted_create") and r.random() < 0.12:
            key_ = "pub" if op["f"] == "C_GenerateKeyPair" else "tmpl"
            if isinstance(op.get(key_), list) and not any(e[0] == K.CKA_TRUSTED for e in op[key_]):
                op[key_].insert(r.randint(0, len(op[key_])), A_bool(K.CKA_TRUSTED, True)); op["trusted_create"] = True
    return g.plan()

def _v(cls, msg, **kw):
    d = {"class": cls, "msg": msg}; d.update(kw); return d

class Hist:
    __slots__ = ("origin", "local", "always_sens", "never_extr", "keygen", "depth", "is_key")

def rb(attrs, t):
    a = attrs.get(str(t))
    if a is None: return None
    v = decode_read(t, a)
    return v

def check(plan, r):
    viols = []; cov = set(); stats = {}
    def st(k, n=1): stats[k] = stats.get(k, 0) + n
    w = World(); pids = hist.pid_track(plan)
    H = {}   # ref -> Hist
    eff = {}
    before = {}
    restarted = False
    def key_class(tm, default=None):
        c = tulong(tm, K.CKA_CLASS, default)
        return c in (K.CKO_SECRET_KEY, K.CKO_PRIVATE_KEY)
    for tid, k, op, ret in hist.walk(plan, r):
        pid = pids[tid][k]; P = w.proc(pid)
        f = hist.opname(op); rv = ret.get("rv"); ok = rv == 0
        s = w.sess(pid, op.get("s")) if "s" in op else None
        state = w.state_of(pid, s.ref) if s is not None else None
        so_in = state == K.CKS_RW_SO_FUNCTIONS
        o = w.objs.get(op.get("o")) if isinstance(op.get("o"), str) else None
        live = o is not None and o.alive and any(rr == o.ref for rr in P.h2obj.values())
        if f == "@restart": restarted = True
        # ---- (iv) history attributes supplied by the caller are rejected, for every operation kind
        if op.get("forbidden") is not None:
            fb = op["forbidden"]
            if fb in HIST:
                st("history_attr_in_template_refused"); cov.add("forbidden|%s|%s|%s" % (f, K.name("CKA", fb), K.rvname(rv)))
                if ok: viols.append(_v("C08.history_attr_accepted", "%s accepted a template naming %s" % (f, K.name("CKA", fb)), call=f, op=k, attr=K.name("CKA", fb)))
            elif f == "C_SetAttributeValue" and live and s is not None and (not o.private or w.user_logged_in(pid, s.tok)):
                cov.add("readonly|%s|%s|%s" % (f, K.name("CKA", fb), K.rvname(rv)))
                if ok: viols.append(_v("C08.readonly_set", "C_SetAttributeValue accepted a template naming read-only %s" % K.name("CKA", fb), call=f, op=k, attr=K.name("CKA", fb)))
            elif f == "C_CopyObject" and fb in (K.CKA_CLASS, K.CKA_MODULUS) and ok:
                viols.append(_v("C08.readonly_set", "C_CopyObject accepted a template naming read-only %s" % K.name("CKA", fb), call=f, op=k, attr=K.name("CKA", fb)))
        # ---- (i) gates
        if f == "C_SetAttributeValue" and live and o.modifiable is False and s is not None:
            st("gate_modifiable"); cov.add("gate|modifiable|%s" % K.rvname(rv))
            if ok: viols.append(_v("C08.gate", "C_SetAttributeValue succeeded on an object with CKA_MODIFIABLE = false", call=f, op=k, gate="MODIFIABLE"))
        if f == "C_CopyObject" and live and o.copyable is False:
            st("gate_copyable"); cov.add("gate|copyable|%s" % K.rvname(rv))
            if ok: viols.append(_v("C08.gate", "C_CopyObject succeeded on an object with CKA_COPYABLE = false", call=f, op=k, gate="COPYABLE"))
        if f == "C_DestroyObject" and live and o.destroyable is False:
            st("gate_destroyable"); cov.add("gate|destroyable|%s" % K.rvname(rv))
            if ok: viols.append(_v("C08.gate", "C_DestroyObject succeeded on an object with CKA_DESTROYABLE = false", call=f, op=k, gate="DESTROYABLE"))
        # ---- (ii) trusted only by SO; one-way flags
        if f == "C_SetAttributeValue" and op.get("toggle") and live:
            a = op["tmpl"][0][0]; val = op["tmpl"][0][2] == "01"
            cur = getattr(o, {K.CKA_SENSITIVE: "sensitive", K.CKA_EXTRACTABLE: "extractable", K.CKA_MODIFIABLE: "modifiable", K.CKA_COPYABLE: "copyable", K.CKA_DESTROYABLE: "destroyable", K.CKA_TRUSTED: "trusted", K.CKA_WRAP_WITH_TRUSTED: "wwt"}[a])
            cov.add("toggle|%s|%s->%s|%s|%s" % (K.name("CKA", a), cur, val, K.name("CKS", state) if state is not None else None, "ok" if ok else "refused"))
            if a == K.CKA_TRUSTED and val and not so_in:
                st("trusted_by_user_refused")
                if ok: viols.append(_v("C08.trusted_by_non_so", "CKA_TRUSTED was set to true through a %s session" % K.name("CKS", state), call=f, op=k, state=K.name("CKS", state)))
            if a == K.CKA_TRUSTED and val and so_in and ok: st("trusted_by_so")
            if a == K.CKA_SENSITIVE and cur is True and not val:
                st("oneway_sensitive")
                if ok: viols.append(_v("C08.oneway", "CKA_SENSITIVE went from true to false", call=f, op=k, attr="CKA_SENSITIVE"))
            if a == K.CKA_EXTRACTABLE and cur is False and val:
                st("oneway_extractable")
                if ok: viols.append(_v("C08.oneway", "CKA_EXTRACTABLE went from false to true", call=f, op=k, attr="CKA_EXTRACTABLE"))
            if a == K.CKA_WRAP_WITH_TRUSTED and cur is True and not val and ok:
                viols.append(_v("C08.oneway", "CKA_WRAP_WITH_TRUSTED went from true to false", call=f, op=k, attr="CKA_WRAP_WITH_TRUSTED"))
            if a == K.CKA_COPYABLE and cur is False and val and ok:
                viols.append(_v("C08.oneway", "CKA_COPYABLE went from false to true", call=f, op=k, attr="CKA_COPYABLE"))
        if op.get("trusted_create") and s is not None:
            cov.add("trusted_create|%s|%s" % (K.name("CKS", state), K.rvname(rv)))
            if ok and not so_in:
                viols.append(_v("C08.trusted_by_non_so", "an object was created with CKA_TRUSTED = true through a %s session" % K.name("CKS", state), call=f, op=k, state=K.name("CKS", state)))
            if not so_in: st("trusted_by_user_refused")
            if ok and so_in: st("trusted_by_so")
        # ---- (iii) copying cannot turn a private object public
        if f == "C_CopyObject" and live and o.private and tbool(op.get("tmpl"), K.CKA_PRIVATE) is False:
            st("private_to_public_copy_refused")
            if ok: viols.append(_v("C08.private_to_public", "C_CopyObject turned private object %s into a public copy" % o.ref, call=f, op=k))
        # ---- model of the history attributes
        if ok and f in ("C_CreateObject", "C_GenerateKey", "C_UnwrapKey", "C_DeriveKey") and op.get("out"):
            tm = op.get("tmpl"); h = Hist(); h.depth = 0
            h.is_key = key_class(tm, K.CKO_SECRET_KEY if f != "C_CreateObject" else None)
            sens = tbool(tm, K.CKA_SENSITIVE, False); extr = tbool(tm, K.CKA_EXTRACTABLE, False)
            if f == "C_GenerateKey":
                h.origin = "generate"; h.local = True; h.always_sens = sens; h.never_extr = not extr; h.keygen = op["mech"]["m"]; st("generated_keys")
            elif f == "C_DeriveKey":
                h.origin = "derive"; h.local = False; h.keygen = UNAVAIL; st("derived_keys")
                brefs = [op.get("base")] + ([op.get("second")] if op.get("second") else [])
                bases = [H.get(x) for x in brefs]
                if op["mech"]["m"] in (K.CKM_CONCATENATE_BASE_AND_KEY, K.CKM_CONCATENATE_BASE_AND_DATA, K.CKM_CONCATENATE_DATA_AND_BASE):
                    # the derived key inherits the protection of its parents (PKCS#11 v2.40 2.31.4-2.31.7): effective flags
                    bo = [w.objs.get(x) for x in brefs]
                    if all(b is not None for b in bo):
                        sens = sens or any(b.sensitive for b in bo)
                        extr = extr and all(b.extractable is not False for b in bo)
                        eff[op["out"]] = (sens, extr)
                if all(b is not None and b.always_sens is not None for b in bases):
                    h.always_sens = all(b.always_sens for b in bases) and sens
                    h.never_extr = all(b.never_extr for b in bases) and not extr
                else:
                    h.always_sens = None; h.never_extr = None
            else:
                h.origin = "create" if f == "C_CreateObject" else "unwrap"; h.local = False; h.always_sens = False; h.never_extr = False; h.keygen = UNAVAIL
                if f == "C_UnwrapKey": st("unwrapped_keys")
            H[op["out"]] = h
        elif ok and f == "C_GenerateKeyPair" and op.get("out"):
            for ref, tm, isk in ((op["out"][0], op["pub"], False), (op["out"][1], op["priv"], True)):
                h = Hist(); h.depth = 0; h.origin = "generate"; h.local = True; h.keygen = op["mech"]["m"]; h.is_key = isk
                h.always_sens = tbool(tm, K.CKA_SENSITIVE, False); h.never_extr = not tbool(tm, K.CKA_EXTRACTABLE, False)
                H[ref] = h
            st("generated_keys")
        elif ok and f == "C_CopyObject" and op.get("out") and op.get("o") in H:
            src = H[op["o"]]; h = Hist()
            for a in Hist.__slots__: setattr(h, a, getattr(src, a))
            h.depth = src.depth + 1
            if h.depth >= 2: st("copy_depth2plus")
            H[op["out"]] = h
        w.apply(pid, op, ret)
        if ok and isinstance(op.get("out"), str) and op["out"] in eff and op["out"] in w.objs:
            w.objs[op["out"]].sensitive, w.objs[op["out"]].extractable = eff.pop(op["out"])
        # ---- read-backs
        if f == "@readattrs" and isinstance(op.get("o"), str):
            ref = op["o"]; at = ret.get("attrs", {})
            if op.get("before"): before[ref] = at
            if op.get("after") and ref in before:
                st("readonly_unchanged_checked")
                for t_ in IMMUTABLE + [K.CKA_VALUE_LEN]:
                    b = rb(before[ref], t_); a = rb(at, t_)
                    if b is not None and a is not None and not isinstance(b, tuple) and not isinstance(a, tuple) and a != b:
                        viols.append(_v("C08.immutable_changed", "%s of %s changed from %s to %s across a C_SetAttributeValue" % (K.name("CKA", t_), ref, fmt(b), fmt(a)), call="C_SetAttributeValue", op=k, attr=K.name("CKA", t_)))
                obj = w.objs.get(ref)
                if obj is not None and obj.is_key():
                    b = rb(before[ref], K.CKA_VALUE); a = rb(at, K.CKA_VALUE)
                    if isinstance(b, bytes) and isinstance(a, bytes) and a != b:
                        viols.append(_v("C08.immutable_changed", "the key value of %s changed across a C_SetAttributeValue" % ref, call="C_SetAttributeValue", op=k, attr="CKA_VALUE"))
                before.pop(ref, None)
            if op.get("copyof") and op["copyof"] in H and ref in H:
                pass
            if op.get("copysrc") and op["copysrc"] in w.objs and w.objs[op["copysrc"]].alive:
                # the copy (read just before) and its source agree on everything that can never change
                cp = getattr(check, "_last", None)
            # history attributes tell the truth
            h = H.get(ref); obj = w.objs.get(ref)
            if h is not None and obj is not None and obj.alive and h.is_key:
                exp = {K.CKA_LOCAL: h.local, K.CKA_ALWAYS_SENSITIVE: h.always_sens, K.CKA_NEVER_EXTRACTABLE: h.never_extr}
                if obj.klass == K.CKO_PUBLIC_KEY: exp = {K.CKA_LOCAL: h.local}
                for t_, ev in exp.items():
                    v = rb(at, t_)
                    if ev is None or v is None or isinstance(v, tuple): continue
                    st("history_attrs_compared")
                    if restarted: st("after_restart")
                    got = v != b"\x00"
                    cov.add("hist|%s|%s|d%d|%s" % (h.origin, K.name("CKA", t_), min(h.depth, 3), got == ev))
                    if got != ev:
                        viols.append(_v("C08.history_attr_wrong", "%s of %s (made by %s%s) reads %s, its history says %s" % (K.name("CKA", t_), ref, h.origin, ", copy depth %d" % h.depth if h.depth else "", got, ev), call="C_GetAttributeValue", op=k, attr=K.name("CKA", t_), origin=h.origin))
                v = rb(at, K.CKA_KEY_GEN_MECHANISM)
                if isinstance(v, bytes) and len(v) == 8 and h.keygen is not None:
                    st("history_attrs_compared")
                    got = int.from_bytes(v, "little")
                    if got != h.keygen:
                        viols.append(_v("C08.history_attr_wrong", "CKA_KEY_GEN_MECHANISM of %s (made by %s) reads 0x%x, expected 0x%x" % (ref, h.origin, got, h.keygen), call="C_GetAttributeValue", op=k, attr="CKA_KEY_GEN_MECHANISM", origin=h.origin))
            # a copy equals its source on what can never change
            if op.get("copyof") and ok is not None:
                src_ref = op["copyof"]
                r.aux.setdefault("copies", {})[ref] = (src_ref, at)
            if op.get("copysrc"):
                cp = r.aux.get("copies", {}).get(op["copysrc"])
                cobj = w.objs.get(op["copysrc"])
                if cp is not None and cobj is not None and cobj.alive:
                    st("copy_equal_checked")
                    for t_ in [K.CKA_CLASS, K.CKA_KEY_TYPE, K.CKA_MODULUS, K.CKA_EC_PARAMS, K.CKA_LOCAL, K.CKA_ALWAYS_SENSITIVE, K.CKA_NEVER_EXTRACTABLE, K.CKA_KEY_GEN_MECHANISM]:
                        a = rb(cp[1], t_); b = rb(at, t_)
                        if a is not None and b is not None and not isinstance(a, tuple) and not isinstance(b, tuple) and a != b:
                            viols.append(_v("C08.copy_differs", "%s of copy %s is %s, of its source %s it is %s" % (K.name("CKA", t_), op["copysrc"], fmt(a), ref, fmt(b)), call="C_CopyObject", op=k, attr=K.name("CKA", t_)))
                    if w.objs.get(ref) is not None and w.objs[ref].private and rb(cp[1], K.CKA_PRIVATE) == b"\x00":
                        viols.append(_v("C08.private_to_public", "copy %s of private object %s is public" % (op["copysrc"], ref), call="C_CopyObject", op=k))
    r.aux["c08"] = (cov, stats)
    seen = set(); out = []
    for v in viols:
        key = (v["class"], v.get("attr"), v.get("origin"), v.get("gate"))
        if key in seen: continue
        seen.add(key); out.append(v)
    return out[:6]

def cover(plan, r):
    cov, stats = r.aux.get("c08", (set(), {}))
    return {"keys": sorted(cov), "nontrivial": stats.get("history_attrs_compared", 0) > 0, "stats": stats}

TECHNIQUE = "deterministic simulation: seeded object life histories (all creation paths, copy chains, flag toggles in user/SO/public sessions, restarts) against a reference model carrying each key's origin and ever-bits"
CLAIM = ("Seeded exploration: objects are taken through life histories by the real library in the simulator; the gates (MODIFIABLE/COPYABLE/DESTROYABLE), SO-only CKA_TRUSTED, private-stays-private on copy, rejection of "
         "caller-supplied history attributes for every operation kind, one-way flags, immutability of class/type/key material across sets and equality on copies are checked call by call, and CKA_LOCAL, "
         "CKA_KEY_GEN_MECHANISM, CKA_ALWAYS_SENSITIVE, CKA_NEVER_EXTRACTABLE are compared at every read-back (also after restarts) with what the model derives from how the key was made. The per-class read-only table is sampled, not enumerated. Evidence, not proof.")
NOTE = "Trusted: reference model of history attributes (PKCS#11 v2.40 rules for generate/create/unwrap/derive/copy). Concurrent modification is covered by C15/C18."
