"""C17 - no input makes the library crash, corrupt memory or kill the host process (DESIGN 4, C17)."""
import p11const as K
from p11const import A_bool, A_ulong, A_bytes
from store import StoreW, PIN_TYPES
from gen import RW, RO
from model import World
import hist, objs, mechs

LEVEL = "exploration"
QUICK_RUNS = 1500
QUICK_BUDGET_S = 95
THOROUGH_RUNS = 10 ** 7
RULE = ("two run classes. corrupt (storage fault at an arbitrary instant): a seeded object workload during which object files, lock files, token.object and softhsm2.conf are corrupted on the simulated disk "
        "between calls (bit flips, byte overwrites, truncation at any offset, length/type/kind fields replaced by 0, file size +-1, 2^20, 2^62, 2^63, 2^64-1, file swapped with another object's file, deleted, emptied, "
        "random garbage with .object suffix, garbage configuration), followed by re-reads, restarts and - after the original bytes are restored - a health check. hostile (argument fuzzing, sampled only): every entry "
        "point with stale/never-issued/crossed handles, NULL where PKCS#11 permits it, zero/off-by-one/large lengths always within the memory provided, every mechanism on every key kind, malformed mechanism parameters, "
        "wrapped blobs of length 0.., data longer than the modulus, templates of 0 and > 32 entries. The library is built with ASan + UBSan(null,bounds,object-size,return,unreachable) and exit() is trapped. "
        "Distinct+non-trivial: (entry point, return code) and (corruption kind, file role, outcome).")
PROBES = ["calls_returned", "corruptions_applied", "corrupt_then_restart", "corrupt_then_reread", "restored_health_ok", "hostile_calls", "conf_garbage", "defined_rv_checked"]
DEATH_IS_VIOLATION = ("died.exit", "died.sanitizer", "died.signal", "died.hang", "died.deadlock")

CKR_DEFINED = set(v for n, v in K.C.items() if n.startswith("CKR_"))

ALL_MECHS = [K.CKM_AES_ECB, K.CKM_AES_CBC, K.CKM_AES_CBC_PAD, K.CKM_AES_CTR, K.CKM_AES_GCM, K.CKM_AES_CMAC, K.CKM_AES_KEY_WRAP, K.CKM_AES_KEY_WRAP_PAD, K.CKM_DES3_ECB, K.CKM_DES3_CBC, K.CKM_DES3_CBC_PAD, K.CKM_DES3_CMAC,
             K.CKM_DES_ECB, K.CKM_DES_CBC, K.CKM_SHA256_HMAC, K.CKM_SHA_1_HMAC, K.CKM_SHA512_HMAC, K.CKM_MD5_HMAC, K.CKM_RSA_PKCS, K.CKM_RSA_X_509, K.CKM_RSA_PKCS_OAEP, K.CKM_RSA_PKCS_PSS, K.CKM_SHA1_RSA_PKCS, K.CKM_SHA256_RSA_PKCS,
             K.CKM_SHA256_RSA_PKCS_PSS, K.CKM_SHA512_RSA_PKCS_PSS, K.CKM_DSA, K.CKM_DSA_SHA1, K.CKM_DSA_SHA256, K.CKM_ECDSA, K.CKM_EDDSA, K.CKM_ECDH1_DERIVE, K.CKM_DH_PKCS_DERIVE, K.CKM_SHA256, K.CKM_SHA_1, K.CKM_MD5, K.CKM_SHA512,
             K.CKM_AES_ECB_ENCRYPT_DATA, K.CKM_AES_CBC_ENCRYPT_DATA, K.CKM_DES3_ECB_ENCRYPT_DATA, K.CKM_DES3_CBC_ENCRYPT_DATA, K.CKM_CONCATENATE_BASE_AND_DATA, K.CKM_CONCATENATE_DATA_AND_BASE, K.CKM_CONCATENATE_BASE_AND_KEY,
             K.CKM_AES_KEY_GEN, K.CKM_DES3_KEY_GEN, K.CKM_GENERIC_SECRET_KEY_GEN, K.CKM_EC_KEY_PAIR_GEN, K.CKM_RSA_PKCS_KEY_PAIR_GEN, K.CKM_DSA_KEY_PAIR_GEN, K.CKM_DH_PKCS_KEY_PAIR_GEN, K.CKM_EC_EDWARDS_KEY_PAIR_GEN, 0x7FFFFFFF, 0]

def u64(v): return int(v & 0xFFFFFFFFFFFFFFFF).to_bytes(8, "little")

# mechanisms whose parameter is a structure that contains pointers (CK_KEY_DERIVATION_STRING_DATA, CK_*_CBC_ENCRYPT_DATA_PARAMS, CK_ECDH1_DERIVE_PARAMS,
# CK_RSA_PKCS_OAEP_PARAMS, CK_GCM_PARAMS): these get well-formed structures with hostile LENGTHS from the other branches of rand_param
PTR_PARAM_MECHS = set(getattr(K, n) for n in ("CKM_CONCATENATE_BASE_AND_DATA", "CKM_CONCATENATE_DATA_AND_BASE", "CKM_DES_ECB_ENCRYPT_DATA", "CKM_DES_CBC_ENCRYPT_DATA", "CKM_DES3_ECB_ENCRYPT_DATA",
                      "CKM_DES3_CBC_ENCRYPT_DATA", "CKM_AES_ECB_ENCRYPT_DATA", "CKM_AES_CBC_ENCRYPT_DATA", "CKM_ECDH1_DERIVE", "CKM_ECDH1_COFACTOR_DERIVE", "CKM_RSA_PKCS_OAEP", "CKM_AES_GCM",
                      "CKM_XOR_BASE_AND_DATA") if hasattr(K, n))

class GW(StoreW):
    def rand_param(self, m):
        r = self.r; x = r.random()
        if x < 0.25: return mechs.simple(m)
        if x < 0.4:
            # raw bytes as the parameter. For mechanisms whose parameter is a STRUCT WITH POINTERS the sizes of those structs are left out: random bytes of
            # exactly that size would hand the library a wild pointer, which is outside the property's precondition (all pointers reference valid memory)
            sizes = [1, 7, 8, 12, 15, 17, 23, 33, 47] if m in PTR_PARAM_MECHS else [1, 7, 8, 12, 15, 16, 17, 24, 32, 48]
            return mechs.simple(m, objs.rnd(r, r.choice(sizes)))
        if x < 0.5: return mechs.gcm(objs.rnd(r, r.choice([0, 1, 12, 16, 300])), objs.rnd(r, r.choice([0, 5, 64])), r.choice([0, 8, 96, 128, 129, 1 << 20])) if m == K.CKM_AES_GCM or r.random() < 0.3 else mechs.ctr(r.choice([0, 1, 64, 128, 129, 1 << 30]), objs.rnd(r, 16)) | {"m": m}
        if x < 0.6:
            d = mechs.oaep(r.choice([K.CKM_SHA_1, K.CKM_SHA256, 0, 0x999]), r.choice([K.CKG_MGF1_SHA1, K.CKG_MGF1_SHA256, 0, 77])); d["m"] = m
            if r.random() < 0.4: d["p"] = d["p"][:48] + u64(0).hex() + u64(r.choice([0, 5, 1 << 40])).hex()   # NULL source with a length
            return d
        if x < 0.7: return mechs.pss(m, r.choice([K.CKM_SHA_1, K.CKM_SHA256, K.CKM_SHA512, 0]), r.choice([K.CKG_MGF1_SHA1, K.CKG_MGF1_SHA256, K.CKG_MGF1_SHA512, 9]), r.choice([0, 20, 32, 64, 1000, (1 << 63)]))
        if x < 0.8:
            d = mechs.kdsd(m, objs.rnd(r, r.choice([0, 1, 8, 15, 16, 17, 32, 200])))
            if r.random() < 0.3: d["ptrs"] = [[0, ""]]   # NULL data pointer, non-zero length
            return d
        if x < 0.88:
            d = mechs.ecdh1(objs.rnd(r, r.choice([0, 1, 33, 65, 67, 200]))); d["m"] = m
            if r.random() < 0.3: d["p"] = u64(r.choice([K.CKD_NULL, 2, 99])).hex() + d["p"][16:]
            return d
        if x < 0.94:
            d = mechs.aes_cbc_encrypt_data(objs.rnd(r, 16), objs.rnd(r, r.choice([0, 1, 16, 31, 32]))); d["m"] = m; return d
        d = mechs.simple(m, objs.rnd(r, 41 if m in PTR_PARAM_MECHS else 40)); d["plen"] = r.choice([0, 1, 8, 39]); return d

    def handles(self, pid, kind):
        r = self.r; P = self.P(pid)
        if kind == "s":
            live = [s.ref for s in self.live_sessions(pid)]
            allr = ["S%d" % k for k in range(1, self.n_sess + 1)]
            x = r.random()
            if x < 0.7 and live: return r.choice(live)
            if x < 0.8 and allr: return r.choice(allr)
            return r.choice([0, 1, 2, 3, 99, 0xFFFFFFFF, (1 << 64) - 1])
        lo = [o.ref for o in self.w.objs.values()]
        x = r.random()
        if x < 0.75 and lo: return r.choice(lo)
        return r.choice([0, 1, 2, 3, 5, 50, 0xFFFFFFFF, (1 << 64) - 1])

    def s_hostile(self, tid=0, pid=1):
        r = self.r
        s = self.handles(pid, "s"); o = self.handles(pid, "o"); o2 = self.handles(pid, "o")
        m = self.rand_param(r.choice(ALL_MECHS))
        data = objs.rnd(r, r.choice([0, 1, 8, 15, 16, 17, 31, 32, 33, 64, 117, 127, 128, 129, 245, 255, 256, 257, 1000, 5000]))
        cap = r.choice([None, None, 0, 1, 15, 16, 17, 32, 64, 127, 128, 129, 256, 512, 6000])
        fam = r.choice(["enc", "dec", "sign", "verify", "digest", "signrec", "wrap", "unwrap", "unwrap", "unwrap", "derive", "derive", "gen", "genpair", "attr", "obj", "find", "misc", "token", "legacy"])
        E = lambda op: self.emit(op, tid, ok=False)
        if fam in ("enc", "dec", "sign", "verify", "signrec") and r.random() < 0.5:
            # matched stratum: a mechanism that FITS a live key, so that *Init succeeds and the hostile part (data and buffer lengths) reaches the code behind it
            MATCH = {"aes": {"enc": [K.CKM_AES_ECB, K.CKM_AES_CBC, K.CKM_AES_CBC_PAD, K.CKM_AES_CTR, K.CKM_AES_GCM], "sign": [K.CKM_AES_CMAC]},
                     "des3": {"enc": [K.CKM_DES3_ECB, K.CKM_DES3_CBC, K.CKM_DES3_CBC_PAD], "sign": [K.CKM_DES3_CMAC]},
                     "generic": {"sign": [K.CKM_SHA256_HMAC, K.CKM_SHA_1_HMAC, K.CKM_SHA512_HMAC, K.CKM_MD5_HMAC]},
                     "rsa_pub": {"enc": [K.CKM_RSA_PKCS, K.CKM_RSA_X_509, K.CKM_RSA_PKCS_OAEP], "verify": [K.CKM_RSA_PKCS, K.CKM_RSA_X_509, K.CKM_RSA_PKCS_PSS, K.CKM_SHA1_RSA_PKCS, K.CKM_SHA256_RSA_PKCS, K.CKM_SHA256_RSA_PKCS_PSS]},
                     "rsa_priv": {"dec": [K.CKM_RSA_PKCS, K.CKM_RSA_X_509, K.CKM_RSA_PKCS_OAEP], "sign": [K.CKM_RSA_PKCS, K.CKM_RSA_X_509, K.CKM_RSA_PKCS_PSS, K.CKM_SHA1_RSA_PKCS, K.CKM_SHA256_RSA_PKCS, K.CKM_SHA256_RSA_PKCS_PSS], "signrec": [K.CKM_RSA_PKCS, K.CKM_RSA_X_509]},
                     "ec_priv": {"sign": [K.CKM_ECDSA]}, "ec_pub": {"verify": [K.CKM_ECDSA]}}
            f2 = {"dec": "enc", "verify": "sign"}
            cands = []
            for ob in self.live_objs(pid):
                kd = self.info.get(ob.ref, {}).get("kind")
                ms = MATCH.get(kd, {})
                lst = ms.get(fam) or (ms.get(f2.get(fam)) if kd in ("aes", "des3", "generic") else None)
                if lst: cands.append((ob, lst))
            live = [x for x in self.live_sessions(pid)]
            if cands and live:
                ob, lst = r.choice(cands); mm = r.choice(lst)
                ss = [x for x in live if x.tok == ob.tok] or live
                s = r.choice(ss).ref; o = ob.ref
                if mm in (K.CKM_AES_CBC, K.CKM_AES_CBC_PAD): m = mechs.simple(mm, objs.rnd(r, 16))
                elif mm in (K.CKM_DES3_CBC, K.CKM_DES3_CBC_PAD): m = mechs.simple(mm, objs.rnd(r, 8))
                elif mm == K.CKM_AES_CTR: m = mechs.ctr(r.choice([1, 32, 128]), objs.rnd(r, 16))
                elif mm == K.CKM_AES_GCM: m = mechs.gcm(objs.rnd(r, r.choice([0, 0, 1, 12, 16, 200])), objs.rnd(r, r.choice([0, 5])), r.choice([0, 32, 96, 128]))
                elif mm == K.CKM_RSA_PKCS_OAEP: m = mechs.oaep(K.CKM_SHA_1, K.CKG_MGF1_SHA1)
                elif mm in (K.CKM_RSA_PKCS_PSS, K.CKM_SHA256_RSA_PKCS_PSS): m = mechs.pss(mm, r.choice([K.CKM_SHA_1, K.CKM_SHA256]), r.choice([K.CKG_MGF1_SHA1, K.CKG_MGF1_SHA256]), r.choice([0, 20, 32, 94, 95, 1000]))
                else: m = mechs.simple(mm)
                cap = r.choice([None, 0, 1, 127, 128, 129, 256, 512, 6000, 6000])
        if fam in ("enc", "dec", "sign", "signrec"):
            base = {"enc": "C_Encrypt", "dec": "C_Decrypt", "sign": "C_Sign", "signrec": "C_SignRecover"}[fam]
            E({"f": base + "Init", "s": s, "mech": m, "key": o})
            seq = r.choice([["single"], ["update", "final"], ["update", "update", "final"], ["final"], ["single", "single"], ["update", "single"], ["query", "single"]])
            for st_ in seq:
                if st_ == "single": E({"f": base, "s": s, "in": data.hex(), "outcap": cap})
                elif st_ == "query": E({"f": base, "s": s, "in": data.hex(), "outcap": None})
                elif st_ == "update" and fam != "signrec": E({"f": base + "Update", "s": s, "in": objs.rnd(r, r.choice([0, 1, 16, 17, 100])).hex(), **({"outcap": cap} if fam in ("enc", "dec") else {})})
                elif fam != "signrec": E({"f": base + "Final", "s": s, "outcap": r.choice([None, 0, 16, 64, 512])})
        elif fam == "verify":
            E({"f": "C_VerifyInit", "s": s, "mech": m, "key": o})
            sig = objs.rnd(r, r.choice([0, 1, 16, 20, 32, 64, 127, 128, 129, 256, 512]))
            if r.random() < 0.6: E({"f": "C_Verify", "s": s, "in": data.hex(), "sig": sig.hex()})
            else:
                E({"f": "C_VerifyUpdate", "s": s, "in": data.hex()}); E({"f": "C_VerifyFinal", "s": s, "sig": sig.hex()})
            if r.random() < 0.2: E({"f": "C_VerifyRecoverInit", "s": s, "mech": m, "key": o}); E({"f": "C_VerifyRecover", "s": s, "in": sig.hex(), "outcap": cap})
        elif fam == "digest":
            E({"f": "C_DigestInit", "s": s, "mech": m})
            for st_ in r.choice([["single"], ["update", "key", "final"], ["key"], ["final"], ["update", "single"], ["query", "final"]]):
                if st_ == "single": E({"f": "C_Digest", "s": s, "in": data.hex(), "outcap": cap})
                elif st_ == "query": E({"f": "C_DigestFinal", "s": s, "outcap": None})
                elif st_ == "update": E({"f": "C_DigestUpdate", "s": s, "in": data.hex()})
                elif st_ == "key": E({"f": "C_DigestKey", "s": s, "key": o})
                else: E({"f": "C_DigestFinal", "s": s, "outcap": r.choice([None, 0, 16, 20, 32, 64])})
        elif fam == "wrap":
            E({"f": "C_WrapKey", "s": s, "mech": m, "wkey": o, "key": o2, "outcap": cap, "save": "hw"})
        elif fam == "unwrap" and r.random() < 0.5 and [x for x in self.live_objs(pid) if self.info.get(x.ref, {}).get("kind") == "aes"]:
            # matched: a real AES unwrapping key (often carrying a CKA_UNWRAP_TEMPLATE) and a fitting mechanism, so that the call gets past its first checks
            # and compares the hostile template with the key's unwrap template
            ks = [x for x in self.live_objs(pid) if self.info.get(x.ref, {}).get("kind") == "aes"]
            ko = r.choice(ks); live_ = [x for x in self.live_sessions(pid) if x.tok == ko.tok] or self.live_sessions(pid)
            if not live_: return False
            new = self.new_obj()
            mm, lens = r.choice([(mechs.simple(K.CKM_AES_KEY_WRAP), [24, 32, 40]), (mechs.simple(K.CKM_AES_KEY_WRAP_PAD), [16, 24, 32]), (mechs.simple(K.CKM_AES_CBC_PAD, objs.rnd(r, 16)), [16, 32, 48])])
            blob = objs.rnd(r, r.choice(lens)) if r.random() < 0.85 else r.choice([b"", objs.rnd(r, 7), objs.rnd(r, 4096)])
            src = blob.hex() if r.random() < 0.8 else {"from": "hw"}
            tm = self.weird_template(new, n=r.choice([2, 4, 8]))
            ut = [e for op_ in self.ops[tid] if op_.get("out") == ko.ref and op_.get("f") == "C_CreateObject" for e in op_["tmpl"] if e[0] == K.CKA_UNWRAP_TEMPLATE and e[1] == "t"]
            if ut and r.random() < 0.85:
                # the call compares the caller's template entry by entry with the key's CKA_UNWRAP_TEMPLATE: name every entry of it as stored, except ONE that
                # comes in an ill-typed encoding (NULL with length 0, empty, wrong size) or with another value - so that the comparison gets that far
                for _rep in range(r.randint(1, 3)):
                    tm = [A_bytes(K.CKA_LABEL, objs.label(new)), A_ulong(K.CKA_CLASS, K.CKO_SECRET_KEY), A_ulong(K.CKA_KEY_TYPE, r.choice([K.CKK_AES, K.CKK_GENERIC_SECRET])), A_bool(K.CKA_TOKEN, False), A_bool(K.CKA_PRIVATE, False)]
                    tm = [e for e in tm if e[0] not in [x[0] for x in ut[0][2]]]
                    bad = r.randrange(len(ut[0][2])) if r.random() < 0.9 else -1
                    for n_, e in enumerate(ut[0][2]):
                        if n_ != bad: tm.append(list(e)); continue
                        y = r.random()
                        if y < 0.35: tm.append([e[0], "n", 0])
                        elif y < 0.6: tm.append([e[0], "x", "", True])
                        elif y < 0.8: tm.append([e[0], "x", objs.rnd(r, r.choice([1, 2, 7, 9])).hex()])
                        else: tm.append([e[0], "x", (bytes([bytes.fromhex(e[2])[0] ^ 1]) + bytes.fromhex(e[2])[1:]).hex() if e[2] else "01"])
                    r.shuffle(tm)
                    E({"f": "C_UnwrapKey", "s": r.choice(live_).ref, "mech": mm, "ukey": ko.ref, "in": src, "tmpl": tm, "out": new, "ut_targeted": True})
                self.info[new] = {"kind": "generic", "secret": {}}
                return True
            E({"f": "C_UnwrapKey", "s": r.choice(live_).ref, "mech": mm, "ukey": ko.ref, "in": src, "tmpl": tm, "out": new})
            self.info[new] = {"kind": "generic", "secret": {}}
        elif fam == "unwrap":
            new = self.new_obj()
            blob = r.choice([b"", b"\x00", objs.rnd(r, 7), objs.rnd(r, 8), objs.rnd(r, 16), objs.rnd(r, 24), objs.rnd(r, 40), objs.rnd(r, 128), objs.rnd(r, 129), objs.rnd(r, 256), bytes(128), b"\xff" * 128])
            src = blob.hex() if r.random() < 0.7 else {"from": "hw", **({"trunc": r.randrange(40)} if r.random() < 0.5 else {"flip": r.randrange(999)})}
            E({"f": "C_UnwrapKey", "s": s, "mech": m, "ukey": o, "in": src, "tmpl": self.weird_template(new), "out": new})
            self.info[new] = {"kind": "generic", "secret": {}}
        elif fam == "derive" and r.random() < 0.5:
            # matched: a base key that FITS the mechanism and a well-formed (ordinary key) template, so that the call gets as far as the mechanism parameter;
            # the parameter's data lengths are the hostile part (0, 1, unaligned, huge)
            cand = [(x, self.info.get(x.ref, {}).get("kind")) for x in self.live_objs(pid)]
            cand = [(x, kd) for x, kd in cand if kd in ("aes", "des3", "generic", "ec_priv", "dh_priv", "dh_priv")]
            live_ = self.live_sessions(pid)
            if not cand or not live_: return False
            ko, kd = r.choice(cand); ss_ = [x for x in live_ if x.tok == ko.tok] or live_
            dl = r.choice([0, 0, 1, 7, 8, 15, 16, 17, 32, 4096])
            if kd == "aes": mm = r.choice([mechs.kdsd(K.CKM_AES_ECB_ENCRYPT_DATA, objs.rnd(r, dl)), mechs.aes_cbc_encrypt_data(objs.rnd(r, 16), objs.rnd(r, dl)), mechs.kdsd(K.CKM_CONCATENATE_BASE_AND_DATA, objs.rnd(r, dl)), mechs.kdsd(K.CKM_CONCATENATE_DATA_AND_BASE, objs.rnd(r, dl))])
            elif kd == "des3": mm = r.choice([mechs.kdsd(K.CKM_DES3_ECB_ENCRYPT_DATA, objs.rnd(r, dl)), mechs.des_cbc_encrypt_data(K.CKM_DES3_CBC_ENCRYPT_DATA, objs.rnd(r, 8), objs.rnd(r, dl))])
            elif kd == "generic": mm = r.choice([mechs.kdsd(K.CKM_CONCATENATE_BASE_AND_DATA, objs.rnd(r, dl)), mechs.kdsd(K.CKM_CONCATENATE_DATA_AND_BASE, objs.rnd(r, dl))])
            elif kd == "dh_priv":
                # the peer's public value is the whole mechanism parameter: the degenerate values a DH implementation must refuse (0, 1, p-1, p, p+1), empty, short, over-long
                prime = None
                for op_ in self.ops.get(tid, []):
                    if op_.get("out") == ko.ref and op_.get("f") == "C_CreateObject":
                        for e_ in op_["tmpl"]:
                            if e_[0] == K.CKA_PRIME: prime = int(e_[2], 16)
                nb = 128
                vals = [b"", b"\x00", b"\x01", b"\x02", bytes(nb), bytes(nb - 1) + b"\x01", objs.rnd(r, nb), objs.rnd(r, 1), objs.rnd(r, 300)]
                if prime: vals += [(prime - 1).to_bytes(nb, "big"), (prime - 1).to_bytes(nb, "big"), prime.to_bytes(nb, "big"), (prime + 1).to_bytes(nb + 1, "big")[-nb - 1:].lstrip(b"\x00") or b"\x00"]
                mm = mechs.simple(K.CKM_DH_PKCS_DERIVE, r.choice(vals))
            else: mm = mechs.ecdh1(r.choice([b"", b"\x04", objs.rnd(r, 33), objs.rnd(r, 65), bytes.fromhex(objs.POOL["ec"][0]["q"]), b"\x04" + bytes(64), objs.rnd(r, 300)]))
            new = self.new_obj()
            tm = [A_bytes(K.CKA_LABEL, objs.label(new)), A_ulong(K.CKA_CLASS, K.CKO_SECRET_KEY), A_ulong(K.CKA_KEY_TYPE, r.choice([K.CKK_GENERIC_SECRET, K.CKK_AES, K.CKK_DES3])), A_bool(K.CKA_TOKEN, r.random() < 0.3), A_bool(K.CKA_PRIVATE, False),
                  A_bool(K.CKA_SENSITIVE, False), A_bool(K.CKA_EXTRACTABLE, True)]
            if r.random() < 0.6: tm.append(A_ulong(K.CKA_VALUE_LEN, r.choice([0, 1, 16, 24, 32, 64, 4096])))
            E({"f": "C_DeriveKey", "s": r.choice(ss_).ref, "mech": mm, "base": ko.ref, "tmpl": tm, "out": new})
            self.info[new] = {"kind": "generic", "secret": {}}
        elif fam == "derive":
            new = self.new_obj()
            if r.random() < 0.2: m = mechs.concat_key(o2)
            E({"f": "C_DeriveKey", "s": s, "mech": m, "base": o, "tmpl": self.weird_template(new), "out": new})
            self.info[new] = {"kind": "generic", "secret": {}}
        elif fam == "gen":
            new = self.new_obj()
            E({"f": "C_GenerateKey", "s": s, "mech": m, "tmpl": self.weird_template(new), "out": new})
            self.info[new] = {"kind": "generic", "secret": {}}
        elif fam == "genpair":
            if m["m"] in (K.CKM_RSA_PKCS_KEY_PAIR_GEN, K.CKM_DSA_KEY_PAIR_GEN, K.CKM_DH_PKCS_KEY_PAIR_GEN) and r.random() < 0.9: m = mechs.simple(K.CKM_EC_KEY_PAIR_GEN)   # slow generators are rarely sampled
            n1 = self.new_obj(); n2 = self.new_obj()
            pub = self.weird_template(n1, key=False) + [A_bytes(K.CKA_EC_PARAMS, r.choice([bytes.fromhex(objs.POOL["ec"][0]["params"]), b"", b"\x06\x00", objs.rnd(r, 12), bytes.fromhex("06032b6570")]))]
            if m["m"] == K.CKM_RSA_PKCS_KEY_PAIR_GEN: pub += [A_ulong(K.CKA_MODULUS_BITS, r.choice([0, 8, 512, 1024])), A_bytes(K.CKA_PUBLIC_EXPONENT, r.choice([b"\x01\x00\x01", b"", b"\x02", b"\x01"]))]
            E({"f": "C_GenerateKeyPair", "s": s, "mech": m, "pub": pub, "priv": self.weird_template(n2, key=False), "out": [n1, n2]})
            self.info[n1] = {"kind": "ec_pub", "secret": {}}; self.info[n2] = {"kind": "ec_priv", "secret": {}}
        elif fam == "attr":
            types = r.sample(PIN_TYPES + [0x7FFFFFF1, K.CKA_WRAP_TEMPLATE, K.CKA_UNWRAP_TEMPLATE, K.CKA_ALLOWED_MECHANISMS, K.CKA_PRIME_2, K.CKA_EXPONENT_1], r.randint(0, 5))
            want = [[t, r.choice([None, None, 0, 1, 7, 8, 16, 64, 4096])] for t in types]
            E({"f": "C_GetAttributeValue", "s": s, "o": o, "want": want})
            E({"f": "C_SetAttributeValue", "s": s, "o": o, "tmpl": self.weird_template(None, key=False, n=r.choice([0, 1, 2, 5, 40]))})
            E({"f": "C_GetObjectSize", "s": s, "o": o})
        elif fam == "obj":
            new = self.new_obj()
            x = r.random()
            if x < 0.5: E({"f": "C_CreateObject", "s": s, "tmpl": self.weird_create(new), "out": new})
            elif x < 0.8: E({"f": "C_CopyObject", "s": s, "o": o, "tmpl": self.weird_template(new, key=False, n=r.choice([0, 1, 3, 34])), "out": new})
            else: E({"f": "C_DestroyObject", "s": s, "o": o})
            self.info.setdefault(new, {"kind": "data", "secret": {}})
        elif fam == "find":
            E({"f": "C_FindObjectsInit", "s": s, "tmpl": self.weird_template(None, key=False, n=r.choice([0, 1, 2, 40]))})
            for _ in range(r.randint(0, 3)): E({"f": "C_FindObjects", "s": s, "max": r.choice([0, 1, 2, 100])})
            if r.random() < 0.8: E({"f": "C_FindObjectsFinal", "s": s})
        elif fam == "misc":
            x = r.random()
            if x < 0.2: E({"f": "C_GenerateRandom", "s": s, "len": r.choice([0, 1, 16, 1000, 100000])})
            elif x < 0.35: E({"f": "C_SeedRandom", "s": s, "in": data.hex()})
            elif x < 0.5: E({"f": "C_GetSessionInfo", "s": s, "null": r.random() < 0.3})
            elif x < 0.65: E({"f": "C_Login", "s": s, "user": r.choice([0, 1, 2, 3, 99]), "pin": objs.rnd(r, r.choice([0, 1, 3, 4, 255, 256, 1000])).hex(), "pin_null": r.random() < 0.15})
            elif x < 0.75: E({"f": "C_SetPIN", "s": s, "old": objs.rnd(r, r.choice([0, 4, 300])).hex(), "new": objs.rnd(r, r.choice([0, 4, 255, 256])).hex(), "old_null": r.random() < 0.2, "new_null": r.random() < 0.2})
            elif x < 0.85: E({"f": "C_InitPIN", "s": s, "pin": objs.rnd(r, r.choice([0, 4, 255, 256])).hex(), "pin_null": r.random() < 0.2})
            elif x < 0.93: E({"f": "C_Logout", "s": s})
            else: E({"f": "C_CloseSession", "s": s})
        elif fam == "token":
            slot = r.choice(self.toks() + ["FREE", 0, 1, 2, 77, 0x7FFFFFFF, (1 << 64) - 1])
            x = r.random()
            if x < 0.15: E({"f": "C_GetSlotList", "present": r.random() < 0.5, "cap": r.choice([None, 0, 1, 2, 10]), "count_null": r.random() < 0.1})
            elif x < 0.3: E({"f": "C_GetSlotInfo", "slot": slot, "null": r.random() < 0.2})
            elif x < 0.45: E({"f": "C_GetTokenInfo", "slot": slot, "null": r.random() < 0.2})
            elif x < 0.6: E({"f": "C_GetMechanismList", "slot": slot, "cap": r.choice([None, 0, 1, 5, 200]), "count_null": r.random() < 0.1})
            elif x < 0.75: E({"f": "C_GetMechanismInfo", "slot": slot, "mech": r.choice(ALL_MECHS), "null": r.random() < 0.2})
            elif x < 0.85: E({"f": "C_OpenSession", "slot": slot, "flags": r.choice([0, 2, 4, 6, 0xFF, RW]), "out": self.new_sess(), "null": r.random() < 0.15})
            elif x < 0.92: E({"f": "C_CloseAllSessions", "slot": slot})
            else: E({"f": "C_InitToken", "slot": slot if r.random() < 0.5 else 77, "pin": objs.rnd(r, r.choice([0, 3, 4, 255, 256])).hex(), "label": "Tx", "pin_null": r.random() < 0.2, "label_null": r.random() < 0.2})
        else:
            x = r.choice(["C_GetOperationState", "C_SetOperationState", "C_GetFunctionStatus", "C_CancelFunction", "C_WaitForSlotEvent", "C_GetInfo", "C_GetFunctionList", "C_DigestEncryptUpdate", "C_DecryptDigestUpdate", "C_SignEncryptUpdate", "C_DecryptVerifyUpdate", "C_Initialize", "C_Finalize_bad"])
            if x == "C_Finalize_bad": E({"f": "C_Finalize", "arg_nonnull": True})
            elif x == "C_Initialize": E({"f": "C_Initialize", "locking": r.choice(["none", "null", "os", "callbacks"])})
            elif x in ("C_GetInfo", "C_GetFunctionList"): E({"f": x, "null": r.random() < 0.5})
            elif x == "C_WaitForSlotEvent": E({"f": x})
            else: E({"f": x, "s": s, "in": data.hex(), "outcap": cap})
        return True

    def weird_template(self, ref, key=True, n=None):
        r = self.r
        t = []
        if ref: t.append(A_bytes(K.CKA_LABEL, objs.label(ref)))
        if key and r.random() < 0.8: t += [A_ulong(K.CKA_CLASS, r.choice([K.CKO_SECRET_KEY, K.CKO_SECRET_KEY, K.CKO_PRIVATE_KEY, K.CKO_DATA, 99])), A_ulong(K.CKA_KEY_TYPE, r.choice([K.CKK_AES, K.CKK_GENERIC_SECRET, K.CKK_DES3, K.CKK_DES, K.CKK_DES2, K.CKK_RSA, K.CKK_EC, 0x999]))]
        pool = [A_bool(K.CKA_TOKEN, r.random() < 0.4), A_bool(K.CKA_PRIVATE, r.random() < 0.4), A_bool(K.CKA_SENSITIVE, r.random() < 0.5), A_bool(K.CKA_EXTRACTABLE, r.random() < 0.5),
                A_ulong(K.CKA_VALUE_LEN, r.choice([0, 1, 8, 16, 24, 32, 33, 512, 1 << 20, (1 << 64) - 1])), A_bytes(K.CKA_ID, objs.rnd(r, r.choice([0, 3, 300]))), [K.CKA_LABEL, "n", 0], [K.CKA_ID, "x", "", True],
                [K.CKA_VALUE_LEN, "x", "10000000"], [K.CKA_TOKEN, "x", "0101"], A_bytes(K.CKA_START_DATE, objs.rnd(r, r.choice([0, 7, 8, 9]))), [K.CKA_ALLOWED_MECHANISMS, "x", objs.rnd(r, r.choice([0, 7, 8, 16, 20])).hex()],
                [K.CKA_WRAP_TEMPLATE, "t", [A_bool(K.CKA_EXTRACTABLE, True), A_bytes(K.CKA_LABEL, objs.rnd(r, 4))][: r.randint(0, 2)]], [K.CKA_UNWRAP_TEMPLATE, "x", objs.rnd(r, r.choice([1, 23, 24, 25])).hex()],
                [0x7FFFFFF2, "x", "00"], A_bool(K.CKA_DERIVE, True), A_bool(K.CKA_ENCRYPT, True), A_bool(K.CKA_SIGN, True), A_bool(K.CKA_WRAP, True), A_bytes(K.CKA_CHECK_VALUE, objs.rnd(r, r.choice([0, 2, 3, 4])))]
        # ill-typed encodings of fixed-size attributes: NULL with length 0, a non-NULL pointer with length 0, wrong sizes
        for ty in (K.CKA_EXTRACTABLE, K.CKA_SENSITIVE, K.CKA_ENCRYPT, K.CKA_DECRYPT, K.CKA_MODIFIABLE, K.CKA_KEY_TYPE, K.CKA_CLASS, K.CKA_VALUE_LEN):
            pool += [[ty, "n", 0], [ty, "x", "", True], [ty, "x", objs.rnd(r, r.choice([2, 3, 7, 9])).hex()]]
        k = n if n is not None else r.choice([0, 1, 2, 4, 6, 10])
        for _ in range(k): t.append(r.choice(pool))
        r.shuffle(t)
        return t

    def weird_create(self, ref):
        r = self.r
        kind = r.choice(objs.KINDS)
        tmpl, info = objs.make(kind, ref, r, token=r.random() < 0.4, private=r.random() < 0.4)
        self.info[ref] = info
        for _ in range(r.randint(0, 3)):
            x = r.random(); i = r.randrange(len(tmpl))
            if x < 0.3 and tmpl[i][1] == "x": tmpl[i] = [tmpl[i][0], "x", objs.rnd(r, r.choice([0, 1, 2, 7, 9, 33, 127, 129, 300])).hex()]
            elif x < 0.5: del tmpl[i]
            elif x < 0.7 and tmpl[i][1] == "x" and tmpl[i][2]: tmpl[i] = [tmpl[i][0], "x", tmpl[i][2][:-2]]
            elif x < 0.85: tmpl.insert(i, r.choice([A_bytes(K.CKA_PRIME, b"\x01"), A_bytes(K.CKA_SUBPRIME, b""), A_bytes(K.CKA_BASE, objs.rnd(r, 5)), A_ulong(K.CKA_KEY_TYPE, r.choice([K.CKK_DSA, K.CKK_DH, K.CKK_EC_EDWARDS, K.CKK_EC])), A_bytes(K.CKA_EC_POINT, objs.rnd(r, r.choice([0, 1, 2, 33, 67])))]))
            else: tmpl[i] = [tmpl[i][0], "n", 0]      # NULL pointer is only well-typed with a zero length
        return tmpl

    # ---------------- storage corruption
    def s_corrupt(self, tid=0, pid=1):
        r = self.r
        toks = [o for o in self.w.objs.values() if o.alive and o.token]
        targets = []
        for o in toks: targets += ["@obj:" + o.ref, "@obj:" + o.ref, "@lock:" + o.ref]
        for t in self.toks(): targets += ["@tok:" + t, "@tok:" + t, "@toklock:" + t]
        if not targets: return False
        path = r.choice(targets)
        big = [0, 1, 7, 8, 9, 0xFF, 1 << 20, (1 << 31), (1 << 32) + 5, 1 << 62, 1 << 63, (1 << 64) - 1]
        x = r.random()
        if x < 0.22: how = {"k": "flip", "off": r.choice([r.randrange(4096), -r.randrange(1, 64), r.randrange(64)]), "bit": r.randrange(8)}
        elif x < 0.45: how = {"k": "field", "off": 8 * r.randrange(0, 200) + r.choice([0, 0, 0, 1, 4]), "hex": int(r.choice(big)).to_bytes(8, "big").hex()}
        elif x < 0.6: how = {"k": "trunc", "len": r.randrange(5000)}
        elif x < 0.68: how = {"k": "set", "off": r.randrange(4096), "hex": objs.rnd(r, r.choice([1, 2, 8, 32])).hex()}
        elif x < 0.74: how = {"k": "append", "hex": objs.rnd(r, r.choice([1, 7, 8, 16, 100])).hex()}
        elif x < 0.8: how = {"k": "replace", "hex": r.choice([b"", objs.rnd(r, 8), objs.rnd(r, 100), bytes(64), b"\xff" * 64]).hex()}
        elif x < 0.86 and toks: how = {"k": "swap", "with": "@obj:" + r.choice(toks).ref} if not path.startswith("@tok") or r.random() < 0.5 else {"k": "swap", "with": "@tok:" + r.choice(self.toks())}
        elif x < 0.88: how = {"k": "delete"}
        elif x < 0.94 and not path.startswith(("@lock", "@toklock")):
            # the stored KIND of one attribute no longer fits its TYPE (file still well-formed)
            kind = r.choice([1, 2, 3, 3, 4, 5])
            u64 = lambda v: int(v).to_bytes(8, "big")
            if kind == 1: enc = bytes([r.choice([0, 1, 255])])
            elif kind == 2: enc = u64(r.choice(big))
            elif kind == 3: b = objs.rnd(r, r.choice([0, 1, 3, 7, 8, 9, 16, 33, 300])); enc = u64(len(b)) + b
            elif kind == 5: n = r.choice([0, 1, 3, 40]); enc = u64(n) + b"".join(u64(r.choice([K.CKM_AES_CBC, K.CKM_RSA_PKCS, 0x999, i])) for i in range(n))
            else:
                inner = b"".join(u64(t_) + u64(1) + b"\x01" for t_ in r.sample([K.CKA_EXTRACTABLE, K.CKA_SENSITIVE, K.CKA_TOKEN, K.CKA_LABEL], r.randint(0, 3)))
                if r.random() < 0.4: inner += u64(K.CKA_LABEL) + u64(3) + u64(5) + b"hello"
                enc = u64(len(inner)) + inner
            # attributes are stored sorted by type: index 3 is CKA_LABEL in almost every object (what a search by label decrypts for a private object)
            how = {"k": "retype", "index": r.choice([3, 3, r.randrange(64), r.randrange(64)]), "kind": kind, "enc": enc.hex()}
        else:
            path = "/sim/tokens/%s/%s" % ("@", "x"); how = None
        if how is None and r.random() < 0.5:
            # unexpected ENTRIES in the token directory: a sub-directory named like an object / lock / the token file's lock, a left-over lock without object,
            # an object name that is not a UUID, an empty "generation" file, a file inside the tokens directory where a token directory is expected
            t = r.choice(self.toks())
            u = "%08x-dead-beef-0000-%012x" % (r.getrandbits(32), r.getrandbits(48))
            what = r.choice(["dir.object", "dir.lock", "lock_only", "odd_name", "generation", "dir_generation", "long_name"])
            if what == "dir.object": self.emit({"act": "corrupt", "path": "@newfile:%s:%s.object" % (t, u), "how": {"k": "mkdir"}}, tid)
            elif what == "dir.lock": self.emit({"act": "corrupt", "path": "@newfile:%s:%s.lock" % (t, u), "how": {"k": "mkdir"}}, tid)
            elif what == "lock_only": self.emit({"act": "corrupt", "path": "@newfile:%s:%s.lock" % (t, u), "how": {"k": "write", "hex": ""}}, tid)
            elif what == "odd_name": self.emit({"act": "corrupt", "path": "@newfile:%s:%s" % (t, r.choice([".object", "x.object", "..object", "a b.object", u + ".object.object"])), "how": {"k": "write", "hex": objs.rnd(r, r.choice([0, 8, 40])).hex()}}, tid)
            elif what == "generation": self.emit({"act": "corrupt", "path": "@newfile:%s:generation" % t, "how": {"k": "write", "hex": objs.rnd(r, r.choice([0, 1, 7, 8, 9, 100])).hex()}}, tid)
            elif what == "dir_generation": self.emit({"act": "corrupt", "path": "@newfile:%s:generation" % t, "how": {"k": "mkdir"}}, tid)
            else: self.emit({"act": "corrupt", "path": "@newfile:%s:%s.object" % (t, "y" * 240), "how": {"k": "write", "hex": objs.rnd(r, 16).hex()}}, tid)
        elif how is None:
            t = r.choice(self.toks())
            self.emit({"act": "corrupt", "path": "@tokdir:" + t, "how": {"k": "noop"}}, tid)
            name = "%08x-dead-beef-0000-%012x.object" % (r.getrandbits(32), r.getrandbits(48))
            self.emit({"act": "corrupt", "path": "@tokdir:%s/%s" % (t, name) if False else "@newfile:%s:%s" % (t, name), "how": {"k": "write", "hex": objs.rnd(r, r.choice([0, 3, 8, 16, 100])).hex()}}, tid)
        else:
            self.emit({"act": "corrupt", "path": path, "how": how}, tid)
        # make the library look at it
        y = r.random()
        victim = self.w.objs.get(path.split(":", 1)[1]) if path.startswith(("@obj:", "@lock:")) else None
        if victim is not None and r.random() < 0.6:
            # use the very object whose file was just damaged / removed, through the handle the application already holds
            ss = [x for x in self.live_sessions(pid) if x.tok == victim.tok]
            if ss:
                s = r.choice(ss)
                if r.random() < 0.3: self.emit({"act": "find", "s": s.ref, "tmpl": [], "batches": []}, tid)
                if r.random() < 0.35:
                    # a search that MATCHES ON a byte-string attribute (for a private object: decrypts the damaged stored value), issued call by call so that
                    # C_FindObjects / C_FindObjectsFinal / C_CloseSession follow whatever C_FindObjectsInit answered
                    tm = r.choice([[A_bytes(K.CKA_LABEL, objs.label(victim.ref))], [A_bytes(K.CKA_ID, objs.rnd(r, 4))], [A_bytes(K.CKA_LABEL, objs.label(victim.ref)), A_bytes(K.CKA_VALUE, objs.rnd(r, 16))]])
                    self.emit({"f": "C_FindObjectsInit", "s": s.ref, "tmpl": tm}, tid, ok=False)
                    for _ in range(r.randint(1, 2)): self.emit({"f": "C_FindObjects", "s": s.ref, "max": r.choice([1, 10])}, tid, ok=False)
                    if r.random() < 0.7: self.emit({"f": "C_FindObjectsFinal", "s": s.ref}, tid, ok=False)
                    if r.random() < 0.3: self.emit({"f": "C_FindObjectsInit", "s": s.ref, "tmpl": []}, tid, ok=False); self.emit({"f": "C_FindObjectsFinal", "s": s.ref}, tid, ok=False)
                for _ in range(r.randint(1, 3)):
                    z = r.random()
                    if z < 0.4: self.emit({"act": "readattrs", "s": s.ref, "o": victim.ref, "types": self.readtypes}, tid)
                    elif z < 0.6: self.s_setattr(tid, pid, obj=victim)
                    elif z < 0.7: self.emit({"f": "C_GetObjectSize", "s": s.ref, "o": victim.ref}, tid, ok=False)
                    elif z < 0.85:
                        new = self.new_obj()
                        self.emit({"f": "C_CopyObject", "s": s.ref, "o": victim.ref, "tmpl": [A_bytes(K.CKA_LABEL, objs.label(new))], "out": new}, tid, ok=False); self.info[new] = self.info.get(victim.ref, {"kind": "data", "secret": {}})
                    else: self.emit({"f": "C_EncryptInit", "s": s.ref, "mech": mechs.simple(K.CKM_AES_ECB), "key": victim.ref}, tid, ok=False)
        if y < 0.5:
            self.emit({"act": "restart"}, tid); self.relogin_all(tid)
        else:
            for _ in range(r.randint(1, 3)):
                z = r.random()
                if z < 0.4: self.s_readout(tid, pid)
                elif z < 0.6: self.s_setattr(tid, pid)
                elif z < 0.75: self.s_login(tid, pid)
                elif z < 0.85: self.s_destroy(tid, pid)
                else: self.s_create(tid, pid, token=True)
        return True

    def s_badconf(self, tid=0, pid=1):
        r = self.r
        self.emit({"act": "stop"}, tid)
        conf = r.choice([b"", b"\x00" * 50, objs.rnd(r, 200), b"directories.tokendir = /nonexistent\n", b"directories.tokendir = /sim/tokens\nobjectstore.backend = nosuch\n",
                         b"directories.tokendir = /sim/tokens\nobjectstore.umask = 99999999999999999999\n", b"directories.tokendir = /sim/tokens\nslots.mechanisms = " + b"CKM_FOO," * 400 + b"\n",
                         b"directories.tokendir = " + b"A" * 5000 + b"\n", b"= = =\n#\n[]\ndirectories.tokendir\n", b"directories.tokendir = /sim/tokens\nlog.level = NOPE\nslots.removable = maybe\nlibrary.reset_on_fork = 7\n",
                         b"directories.tokendir = /sim/tokens\nslots.mechanisms = -CKM_RSA_PKCS,CKM_AES_CBC\n", b"directories.tokendir=/sim/tokens" + b" " * 3000, b"directories.tokendir = /sim/tokens\nobjectstore.umask = -1\n"])
        self.emit({"act": "corrupt", "path": "@conf", "how": {"k": "replace", "hex": conf.hex()}}, tid)
        self.emit({"act": "start", "badconf": True}, tid, ok=False)
        self.emit({"f": "C_GetSlotList", "present": False, "cap": None}, tid, ok=False)
        self.emit({"act": "stop", "badconf": True}, tid, ok=False)
        self.emit({"act": "fsrestore_conf"}, tid)
        self.emit({"act": "start"}, tid); self.relogin_all(tid)
        return True

W_CORRUPT = {"create": 10, "gen": 3, "genpair": 1, "unwrap": 2, "derive": 2, "copy": 3, "setattr": 6, "destroy": 2, "readout": 5, "login": 3, "logout": 1, "restart": 1, "corrupt": 30, "hostile": 6, "badconf": 2}
W_HOSTILE = {"create": 8, "gen": 2, "open": 3, "close": 1, "login": 3, "logout": 2, "hostile": 80, "restart": 0.5}

def gen(seed, tier, index):
    mode = "hostile" if index % 3 == 2 else "corrupt"
    g = GW(seed, "C17", profile=mode, ntok=(1 if index % 2 else 2))
    r = g.r
    # configuration: slots.mechanisms in every legal spelling (ALL, positive and negative lists, names repeated, unknown names, trailing commas)
    if index % 4 == 1:
        names = ["CKM_RSA_PKCS", "CKM_SHA256", "CKM_AES_CBC", "CKM_AES_ECB", "CKM_SHA256_HMAC", "CKM_ECDSA", "CKM_AES_KEY_WRAP", "CKM_AES_CBC_PAD", "CKM_AES_GCM", "CKM_AES_KEY_GEN", "CKM_EC_KEY_PAIR_GEN", "CKM_GENERIC_SECRET_KEY_GEN", "CKM_SHA_1", "CKM_NOSUCH"]
        lst = [r.choice(names) for _ in range(r.randint(1, 12))]
        if r.random() < 0.6: lst += [r.choice(lst) for _ in range(r.randint(1, 4))]       # repeats
        txt = ",".join(lst)
        if r.random() < 0.25: txt = "-" + txt
        if r.random() < 0.2: txt += ","
        g.knobs.setdefault("conf", {})["slots.mechanisms"] = txt
    g.begin()
    if mode == "hostile": g.template_p = 0.7      # keys with wrap / unwrap templates: the calls that compare templates need them
    for t in g.toks():
        g.s_open(tok=t, rw=True); g.s_login(user=K.CKU_USER, tok=t)
    for kd in r.sample(objs.KINDS, r.choice([3, 5, 9])):
        g.s_create(kind=kd, token=r.random() < 0.7)
    if mode == "hostile": g.s_create(kind="aes", token=r.random() < 0.5)
    n = r.choice([6, 10, 16, 24]) if tier == "quick" else r.choice([10, 20, 40])
    for t in g.toks(): g.emit({"f": "C_GetMechanismList", "slot": t, "cap": "exact"}, ok=False)
    if mode == "corrupt":
        g.emit({"act": "fsbackup"})
        for _ in range(n):
            g.step(W_CORRUPT)
        # lift the corruption: original bytes back, restart, the token must work
        g.emit({"act": "stop"}); g.emit({"act": "fsrestore"}); g.emit({"act": "start", "health": True})
        for t in g.toks():
            s = g.new_sess()
            g.emit({"f": "C_OpenSession", "slot": t, "flags": RW, "out": s, "health": True}, ok=True)
            g.emit({"f": "C_Login", "s": s, "user": K.CKU_USER, "pin": g.pins[t][1].hex(), "health": True}, ok=True)
            g.emit({"act": "readout", "s": s, "tmpl": [], "types": [K.CKA_LABEL, K.CKA_CLASS], "health": True})
    else:
        for _ in range(n):
            g.step(W_HOSTILE)
    return g.plan()

def _v(cls, msg, **kw):
    d = {"class": cls, "msg": msg}; d.update(kw); return d

def check(plan, r):
    viols = []; cov = set(); stats = {}
    def st(k, n=1): stats[k] = stats.get(k, 0) + n
    mode = plan.get("profile")
    lastc = None
    def visit(x, f, k):
        # every rv field of every sub-call must be a defined CKR constant
        if isinstance(x, dict):
            for kk, v in x.items():
                if kk in ("rv", "final_rv", "fin_rv") and isinstance(v, int) and v >= 0:
                    st("defined_rv_checked")
                    if v not in CKR_DEFINED:
                        viols.append(_v("C17.undefined_rv", "%s returned 0x%x, which is not a PKCS#11 return code" % (f, v), call=f, op=k, rv=hex(v)))
                else: visit(v, f, k)
        elif isinstance(x, list):
            for v in x: visit(v, f, k)
    for tid, k, op, ret in hist.walk(plan, r):
        f = hist.opname(op); rv = ret.get("rv")
        st("calls_returned")
        visit(ret, f, k)
        if f == "@corrupt":
            if ret.get("done"): st("corruptions_applied"); lastc = (op.get("how", {}).get("k"), (op.get("path") or "").split(":")[0])
            if op.get("path") == "@conf": st("conf_garbage")
        elif f == "@restart" and lastc: st("corrupt_then_restart"); cov.add("corrupt|%s|%s|restart|%s" % (lastc[0], lastc[1], K.rvname(rv))); lastc = None
        elif f == "@readout" and lastc: st("corrupt_then_reread"); cov.add("corrupt|%s|%s|reread|%s" % (lastc[0], lastc[1], K.rvname(rv))); lastc = None
        elif f.startswith("C_") and mode == "hostile":
            st("hostile_calls"); cov.add("%s|%s" % (f, K.rvname(rv) if rv is not None else None))
        if op.get("health"):
            if f in ("@start", "C_OpenSession", "C_Login", "@readout") and rv != 0:
                viols.append(_v("C17.not_recovered", "after the original bytes were restored and the library restarted, %s returned %s" % (f, K.rvname(rv)), call=f, op=k))
            elif f == "@readout": st("restored_health_ok")
    r.aux["c17"] = (cov, stats)
    return viols[:5]

def cover(plan, r):
    cov, stats = r.aux.get("c17", (set(), {}))
    return {"keys": sorted(cov), "nontrivial": stats.get("corruptions_applied", 0) + stats.get("hostile_calls", 0) > 0, "stats": stats}

TECHNIQUE = "deterministic simulation with storage-fault injection (stored bytes corrupted at arbitrary instants on the simulated disk) under ASan/UBSan with exit() trapped; plus a sampled hostile-argument mode (plain input fuzzing, said so)"
CLAIM = ("Seeded exploration, two classes reported separately in the evidence. Storage half: arbitrary content of object files, lock files, token files and the configuration file, changed between calls of a running workload, "
         "is a storage fault that the simulator injects directly; every call must return a defined CKR_* value, nothing may exit/abort/trip a sanitizer, and after the bytes are restored the token must work. Argument half: "
         "hostile but well-typed arguments on all entry points - this is input fuzzing to which simulation adds nothing beyond the seeded, replayable harness; it is sampled, not claimed exhaustively. Every run of every "
         "other property is additionally watched by the same monitors.")
NOTE = "Trusted: ASan/UBSan instrumentation of the library objects (libcrypto is not instrumented); allocation failures are not injected; lengths announced to the library never exceed the memory the harness provides."
