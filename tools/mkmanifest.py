#!/usr/bin/env python3
"""Regenerate /verif/MANIFEST.json from the property modules that exist (tools/props/cXX.py)."""
import os, sys, json, importlib
HERE = os.path.dirname(os.path.abspath(__file__)); VERIF = os.path.dirname(HERE)
sys.path.insert(0, HERE)
NA = {
 "C07": "pure input decision table (operation x key class/type x usage flag x mechanism x allowed list x slots.mechanisms) that the property itself wants enumerated exhaustively; there is no schedule, fault, crash point or multi-party history for a simulator to vary, so deterministic simulation does not apply (DESIGN.md section 5)",
 "C10": "pure function of key, parameters and data, decided by comparison with an independent implementation; nothing in it depends on interleaving, time, I/O or faults (DESIGN.md section 5)",
 "C13": "format and value conformance of pure wrap/unwrap/derive functions against external standards; no schedule, fault or history dimension (DESIGN.md section 5)",
}
props = [json.loads(l) for l in open(os.path.join(VERIF, "properties.jsonl"))]
checks = []; na = []; served = []
for p in props:
    pid = p["id"]
    modpath = os.path.join(HERE, "props", pid.lower() + ".py")
    if pid in NA:
        na.append({"property_id": pid, "reason": NA[pid]}); continue
    if not os.path.exists(modpath):
        na.append({"property_id": pid, "reason": "check not built yet (planned, DESIGN.md section 4); not claimed until it exists"}); continue
    m = importlib.import_module("props." + pid.lower())
    if getattr(m, "DISABLED", None):
        na.append({"property_id": pid, "reason": m.DISABLED}); continue
    served.append(pid)
    checks.append({
        "property_id": pid,
        "quick_cmd": "./check run %s --tier quick" % pid,
        "thorough_cmd": "./check run %s --tier thorough" % pid,
        "evidence_file": "/verif/evidence/%s.json" % pid,
        "replay_cmd_template": "./check replay {path}",
        "engine": "p11sim",
        "level_claimed": {"category": m.LEVEL, "text": m.CLAIM, "design_ref": "DESIGN.md section 4, " + pid},
        "level_note": m.NOTE,
        "technique": m.TECHNIQUE,
    })
man = {
 "version": 1,
 "setup_cmd": "python3 tools/build.py --variant asan --quiet && python3 tools/build.py --variant botan --quiet",
 "hooks": {"guard": "SOFTHSM_VERIF",
           "enable": "no hooks in /repo: every seam is reached at link/compile time of the verification build made by tools/build.py from /repo's working tree (--wrap of the libc calls the library imports, objcopy-renamed library copies as simulated processes, OpenSSL RAND_METHOD, PKCS#11 mutex callbacks, -fsanitize-coverage=trace-pc pre-emption points)",
           "baseline_off_cmd": "cmake -S /repo -B /repo/_build -G Ninja -DBUILD_TESTS=ON -DCMAKE_BUILD_TYPE=RelWithDebInfo && cmake --build /repo/_build && ctest --test-dir /repo/_build -j8 --timeout 900",
           "source_commits": [], "add_only": True},
 "engines": [{"name": "p11sim", "path": "/verif/sim", "serves_properties": served,
              "kind_free_text": "deterministic simulator: the real SoftHSM library over an in-memory simulated disk (libc --wrap under real glibc stdio), seeded scheduler over parked real threads, symbol-renamed library copies as simulated processes, file-operation fault injection and crash-point exploration; Python plan generator, reference model, history oracles, ddmin minimiser and replay in /verif/tools"}],
 "checks": checks,
 "notes": "See DESIGN.md. ./check run <ID> rebuilds the simulator incrementally from /repo's working tree, replays the listed known findings (known_findings.jsonl), explores seeded plans on 16 workers, gates every candidate violation (second zygote + fresh-process replay; exit 2 if it does not reproduce), minimises it and writes evidence/<ID>.json.",
 "not_applicable": na,
}
json.dump(man, open(os.path.join(VERIF, "MANIFEST.json"), "w"), indent=1)
print("checks:", served, "not applicable:", [x["property_id"] for x in na])
