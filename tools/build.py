#!/usr/bin/env python3
"""Build the p11sim executor from /repo's CURRENT working tree (incremental).

  python3 tools/build.py [--variant asan|plain] [--quiet]

Steps (DESIGN.md 2.2):
  1. config.h from the project's own CMake configure (cached on CMake inputs)
  2. compile every library source of /repo/src/lib (no tests, no win32, OpenSSL
     + file back end) with sanitizers and edge instrumentation
  3. ld -r --force-group-allocation -> all.o ; objcopy --redefine-syms -> p1..p3
  4. compile the harness (/verif/sim) and link with the libc --wrap list
The result is /verif/.build/<variant>/p11sim.  Exit code 0 ok, 2 build failure.
"""
import os, sys, subprocess, hashlib, json, fcntl, glob, time, shlex
from concurrent.futures import ThreadPoolExecutor

VERIF = os.path.dirname(os.path.dirname(os.path.abspath(__file__)))
REPO = os.environ.get("VERIF_REPO", "/repo")
BUILD = os.environ.get("VERIF_BUILD", os.path.join(VERIF, ".build"))
NCOPIES = 3
CXX = "g++"

WRAP = ["open", "close", "fdopen", "fopen", "fileno", "ftruncate", "fstat", "lstat", "fcntl",
        "opendir", "readdir", "closedir", "mkdir", "rmdir", "remove", "unlink",
        "access", "syslog", "time", "getpid", "exit", "getenv", "getpwuid_r", "getuid",
        "pthread_mutex_init", "pthread_mutex_destroy", "pthread_mutex_lock", "pthread_mutex_unlock"]

INC_SUB = ["", "common", "crypto", "data_mgr", "handle_mgr", "object_store", "pkcs11",
           "session_mgr", "slot_mgr"]

def sh(cmd, **kw):
    return subprocess.run(cmd, stdout=subprocess.PIPE, stderr=subprocess.STDOUT, text=True, **kw)

def lib_sources(variant="asan"):
    """every library source of the chosen crypto back end; both object-store back ends (file and SQLite) are compiled into every variant"""
    out = []
    root = os.path.join(REPO, "src", "lib")
    botan = variant == "botan"
    for d, dirs, files in os.walk(root):
        dirs[:] = sorted(x for x in dirs if x not in ("test", "win32"))
        for f in sorted(files):
            if not f.endswith(".cpp"):
                continue
            if f.startswith("OSSL" if botan else "Botan"):
                continue
            if botan and f == "BotanRNG.cpp":
                out.append(os.path.join(VERIF, "sim", "alt", "BotanRNG.cpp"))      # the RNG seam of the botan variant (stub, DESIGN 10.7)
                continue
            out.append(os.path.join(d, f))
    return out

def file_hash(paths):
    h = hashlib.sha256()
    for p in paths:
        h.update(p.encode())
        try:
            with open(p, "rb") as f:
                h.update(f.read())
        except OSError:
            h.update(b"<missing>")
    return h.hexdigest()

def ensure_config(log, variant="asan"):
    botan = variant == "botan"
    cfg = os.path.join(BUILD, "cfg-botan" if botan else "cfg-db")
    inputs = [os.path.join(REPO, "CMakeLists.txt"), os.path.join(REPO, "config.h.in.cmake")]
    inputs += sorted(glob.glob(os.path.join(REPO, "cmake", "modules", "*.cmake")))
    stamp = os.path.join(cfg, "verif.stamp")
    want = file_hash(inputs)
    have = open(stamp).read() if os.path.exists(stamp) else ""
    if have == want and os.path.exists(os.path.join(cfg, "config.h")):
        return cfg
    os.makedirs(cfg, exist_ok=True)
    r = sh(["cmake", "-S", REPO, "-B", cfg, "-DBUILD_TESTS=OFF", "-DCMAKE_BUILD_TYPE=RelWithDebInfo",
            "-DENABLE_EDDSA=ON", "-DENABLE_ECC=ON", "-DWITH_CRYPTO_BACKEND=" + ("botan" if botan else "openssl"), "-DWITH_OBJECTSTORE_BACKEND_DB=ON"])
    if r.returncode != 0 or not os.path.exists(os.path.join(cfg, "config.h")):
        sys.stderr.write(r.stdout)
        raise SystemExit(2)
    open(stamp, "w").write(want)
    log("config.h generated")
    return cfg

def needs_rebuild(obj, dep, flagsig):
    if not os.path.exists(obj) or not os.path.exists(dep):
        return True
    try:
        meta = open(dep + ".sig").read()
    except OSError:
        return True
    if meta != flagsig:
        return True
    mt = os.path.getmtime(obj)
    txt = open(dep).read().replace("\\\n", " ")
    parts = txt.split(":", 1)
    if len(parts) != 2:
        return True
    for p in parts[1].split():
        try:
            if os.path.getmtime(p) > mt:
                return True
        except OSError:
            return True
    return False

def compile_one(args):
    src, obj, dep, flags, flagsig = args
    if not needs_rebuild(obj, dep, flagsig):
        return (src, False, 0, "")
    os.makedirs(os.path.dirname(obj), exist_ok=True)
    cmd = [CXX] + flags + ["-MMD", "-MF", dep, "-c", src, "-o", obj]
    r = sh(cmd)
    if r.returncode == 0:
        open(dep + ".sig", "w").write(flagsig)
    else:
        for p in (obj,):
            try: os.unlink(p)
            except OSError: pass
    return (src, True, r.returncode, r.stdout)

def main():
    import argparse
    ap = argparse.ArgumentParser()
    ap.add_argument("--variant", default="asan")
    ap.add_argument("--quiet", action="store_true")
    a = ap.parse_args()
    variant = a.variant
    t0 = time.time()
    def log(m):
        if not a.quiet:
            print("[build %s %.1fs] %s" % (variant, time.time() - t0, m), flush=True)
    os.makedirs(BUILD, exist_ok=True)
    lockf = open(os.path.join(BUILD, "lock"), "w")
    fcntl.flock(lockf, fcntl.LOCK_EX)
    cfg = ensure_config(log, variant)
    out = os.path.join(BUILD, variant)
    os.makedirs(out, exist_ok=True)

    base = ["-std=c++11", "-O1", "-g1", "-DNDEBUG", "-DHAVE_CONFIG_H", "-w", "-fno-omit-frame-pointer",
            "-fno-pie", "-I" + cfg]
    base += ["-I" + os.path.join(REPO, "src", "lib", s) for s in INC_SUB]
    san = []
    botan = variant == "botan"
    if botan:
        base += ["-I/usr/include/botan-2"]
    if variant in ("asan", "botan"):
        san = ["-fsanitize=address", "-fsanitize=null,bounds,object-size,return,unreachable",
               "-fno-sanitize-recover=all"]
    elif variant == "plain":
        base[1] = "-O2"
    tracepc = ["-fsanitize-coverage=trace-pc"]

    jobs = []
    objs = []
    libroot = os.path.join(REPO, "src", "lib")
    for src in lib_sources(variant):
        rel = os.path.relpath(src, libroot) if src.startswith(libroot) else os.path.join("crypto", os.path.basename(src))
        obj = os.path.join(out, "lib", rel[:-4] + ".o")
        dep = obj[:-2] + ".d"
        flags = base + san
        top = rel.split(os.sep)[0]
        if top != "crypto" and not rel.endswith("RFC4880.cpp"):
            flags = flags + tracepc
        sig = hashlib.sha256(" ".join(flags).encode()).hexdigest()
        jobs.append((src, obj, dep, flags, sig))
        objs.append(obj)
    # harness sources
    hflags = ["-std=c++17", "-O1", "-g1", "-w", "-fno-omit-frame-pointer", "-fno-pie",
              "-I" + os.path.join(REPO, "src", "lib", "pkcs11"), "-I" + os.path.join(VERIF, "sim"),
              "-DNCOPIES=%d" % NCOPIES] + (["-DSIM_BOTAN"] if botan else []) + san
    if variant == "plain":
        hflags[1] = "-O2"
    hobjs = []
    for src in sorted(glob.glob(os.path.join(VERIF, "sim", "*.cpp"))):
        obj = os.path.join(out, "sim", os.path.basename(src)[:-4] + ".o")
        dep = obj[:-2] + ".d"
        sig = hashlib.sha256(" ".join(hflags).encode()).hexdigest()
        jobs.append((src, obj, dep, hflags, sig))
        hobjs.append(obj)
    # longest first
    jobs.sort(key=lambda j: -os.path.getsize(j[0]))
    rebuilt_lib = False
    rebuilt_any = False
    failed = False
    with ThreadPoolExecutor(max_workers=os.cpu_count() or 4) as ex:
        for src, did, rc, outp in ex.map(compile_one, jobs):
            if did:
                rebuilt_any = True
                if src.startswith(libroot) or os.sep + "alt" + os.sep in src:
                    rebuilt_lib = True
            if rc != 0:
                failed = True
                sys.stderr.write("COMPILE FAILED: %s\n%s\n" % (src, outp))
    if failed:
        raise SystemExit(2)
    # drop stale objects of removed sources
    log("compiled (lib rebuilt: %s)" % rebuilt_lib)
    allo = os.path.join(out, "all.o")
    copies = [os.path.join(out, "p%d.o" % i) for i in range(1, NCOPIES + 1)]
    objlist_sig = hashlib.sha256("\n".join(objs).encode()).hexdigest()
    sigf = os.path.join(out, "objlist.sig")
    if rebuilt_lib or not all(os.path.exists(c) for c in copies) or not os.path.exists(sigf) or open(sigf).read() != objlist_sig:
        r = sh(["ld", "-r", "--force-group-allocation", "-o", allo] + objs)
        if r.returncode != 0:
            sys.stderr.write(r.stdout); raise SystemExit(2)
        r = sh(["nm", "--defined-only", "--extern-only", allo])
        if r.returncode != 0:
            sys.stderr.write(r.stdout); raise SystemExit(2)
        syms = set()
        for line in r.stdout.splitlines():
            parts = line.split()
            if len(parts) < 3:
                continue
            syms.add(parts[2])
        for i, c in enumerate(copies, 1):
            mp = os.path.join(out, "map%d.txt" % i)
            with open(mp, "w") as f:
                for s in sorted(syms):
                    f.write("%s p%d_%s\n" % (s, i, s))
            r = sh(["objcopy", "--redefine-syms=" + mp, allo, c])
            if r.returncode != 0:
                sys.stderr.write(r.stdout); raise SystemExit(2)
        open(sigf, "w").write(objlist_sig)
        rebuilt_any = True
        log("library copies made (%d symbols renamed)" % len(syms))
    exe = os.path.join(out, "p11sim")
    if rebuilt_any or not os.path.exists(exe):
        cmd = [CXX, "-no-pie", "-o", exe + ".tmp"] + hobjs + copies + san + \
              ["-Wl,--wrap=" + w for w in WRAP] + (["-lbotan-2"] if botan else ["-lcrypto"]) + ["-lsqlite3", "-lpthread", "-ldl"]
        r = sh(cmd)
        if r.returncode != 0:
            sys.stderr.write(r.stdout); raise SystemExit(2)
        os.replace(exe + ".tmp", exe)
        log("linked " + exe)
    else:
        log("up to date")
    fcntl.flock(lockf, fcntl.LOCK_UN)
    print(exe)

if __name__ == "__main__":
    main()
