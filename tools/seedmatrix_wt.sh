#!/bin/sh
# usage: tools/seedmatrix_wt.sh [ID:CHECK ...]  -- like tools/seedmatrix.sh, but on a scratch worktree of /repo's HEAD with its own build directory
# (VERIF_REPO / VERIF_BUILD), so that /repo and /verif/.build stay usable meanwhile.  Worktree and build are removed at the end.
cd /verif || exit 3
WT=/var/tmp/mx-wt; BD=/var/tmp/mx-build
git -C /repo worktree remove --force $WT 2>/dev/null; rm -rf $BD
git -C /repo worktree add --detach $WT HEAD >/dev/null 2>&1 || exit 3
VERIF_REPO=$WT; VERIF_BUILD=$BD; VERIF_EVIDENCE=/var/tmp/verif-mut-evidence; export VERIF_REPO VERIF_BUILD VERIF_EVIDENCE; mkdir -p $VERIF_EVIDENCE
PAIRS="$*"
if [ -z "$PAIRS" ]; then for d in seeded/C*/; do id=$(basename $d); chk=$(echo $id | sed "s/[bcdef]$//"); PAIRS="$PAIRS $id:$chk"; done; fi
for pc in $PAIRS; do
  id=${pc%%:*}; chk=${pc##*:}
  if ! git -C $WT apply /verif/seeded/$id/patch.diff 2>/dev/null; then echo "NOAPPLY seeded/$id"; git -C $WT checkout -- .; continue; fi
  out=$(./check run $chk 2>&1); rc=$?
  git -C $WT checkout -- .
  line=$(echo "$out" | grep "^$chk quick" | tail -1 | cut -c1-110)
  first=$(echo "$out" | grep -m1 "^violation class" | cut -c1-150)
  if [ $rc -eq 1 ]; then echo "CAUGHT  seeded/$id by $chk | $line | $first"; elif [ $rc -eq 0 ]; then echo "MISSED  seeded/$id by $chk | $line"; else echo "ERROR($rc) seeded/$id by $chk"; fi
done
git -C /repo worktree remove --force $WT; rm -rf $BD
