#!/bin/sh
# usage: tools/trymut.sh <patch-file> <PROP> [runs]   -- apply a patch to /repo, run the quick check, revert.  Exit status = check's.
set -u
P="$1"; PROP="$2"; RUNS="${3:-}"
cd /repo || exit 3
git apply "$P" || { echo "patch does not apply"; exit 3; }
cd /verif
VERIF_EVIDENCE=/var/tmp/verif-mut-evidence; export VERIF_EVIDENCE; mkdir -p $VERIF_EVIDENCE
if [ -n "$RUNS" ]; then ./check run "$PROP" --runs "$RUNS"; else ./check run "$PROP"; fi
rc=$?
git -C /repo checkout -- . 
echo "trymut: exit $rc"
exit $rc
