#!/bin/sh
# usage: tools/confirm_seed.sh <ID> [seeded-name]  -- confirm a sub-agent's seeded defect (worktree /tmp/wt-<ID>, outputs /tmp/out-<ID>) and store it under /verif/seeded/<name>/
ID="$1"; NAME="${2:-$1}"
WT=/tmp/wt-$ID; OUT=/tmp/out-$ID
set -u
cd "$WT" || exit 3
git diff > /tmp/confirm-$ID.diff
if ! diff -q /tmp/confirm-$ID.diff "$OUT/patch.diff" >/dev/null; then echo "NOTE: worktree diff differs from patch.diff (using patch.diff)"; fi
# 1. the existing tests with the change
cmake --build _build -j8 2>&1 | tail -1
ctest --test-dir _build -j4 --timeout 900 > /tmp/confirm-$ID.ctest 2>&1
grep ' : assertion\| : error' _build/Testing/Temporary/LastTest.log | sort > /tmp/confirm-$ID.fail
cat > /tmp/confirm-baseline.fail <<EOT
DESTests::testCBC : assertion
DESTests::testCFB : assertion
DESTests::testECB : assertion
DESTests::testOFB : assertion
DeriveTests::testSymDerive : assertion
ObjectTests::testCreateSecretKey : assertion
SymmetricAlgorithmTests::testDesEncryptDecrypt : assertion
EOT
sort /tmp/confirm-baseline.fail > /tmp/confirm-baseline.sorted
if diff /tmp/confirm-baseline.sorted /tmp/confirm-$ID.fail >/dev/null; then TESTS=same-as-baseline; else TESTS=DIFFERENT; diff /tmp/confirm-baseline.sorted /tmp/confirm-$ID.fail; fi
echo "tests with change: $TESTS"
# 2. the demonstration with and without the change
( cd "$OUT/demo" && sh ./run.sh "$WT/_build/src/lib/libsofthsm2.so" > /tmp/confirm-$ID.with 2>&1 ); WITH=$?
( cd "$OUT/demo" && sh ./run.sh ${WITHOUT_LIB:-/repo/_build/src/lib/libsofthsm2.so} > /tmp/confirm-$ID.without 2>&1 ); WITHOUT=$?
echo "demo with change: exit $WITH ; without change: exit $WITHOUT"
if [ "$TESTS" = same-as-baseline ] && [ $WITH -ne 0 ] && [ $WITHOUT -eq 0 ]; then
  mkdir -p /verif/seeded/$NAME
  cp "$OUT/patch.diff" /verif/seeded/$NAME/patch.diff
  rm -rf /verif/seeded/$NAME/demo; cp -r "$OUT/demo" /verif/seeded/$NAME/demo
  find /verif/seeded/$NAME/demo -type f \( -name '*.o' -o -name 'demo' -o -name '*.log' -o -perm -u+x -a ! -name '*.sh' \) -size +200k -delete 2>/dev/null
  cp "$OUT/NOTES.md" /verif/seeded/$NAME/NOTES.md 2>/dev/null
  tail -5 /tmp/confirm-$ID.with > /verif/seeded/$NAME/demo_with_change.txt
  echo CONFIRMED
else
  echo NOT-CONFIRMED; tail -5 /tmp/confirm-$ID.with; tail -5 /tmp/confirm-$ID.without
fi
