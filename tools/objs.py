"""Template builders for the object kinds the workloads use."""
import os, json
import p11const as K
from p11const import A_bool, A_ulong, A_bytes, A_str, A_mechs

POOL = json.load(open(os.path.join(os.path.dirname(os.path.abspath(__file__)), "keypool.json")))

KINDS = ["data", "cert", "aes", "generic", "des3", "rsa_pub", "rsa_priv", "ec_pub", "ec_priv", "dsa_priv", "dh_priv", "dsa_params", "dh_params"]
SECRET_ATTRS = [K.CKA_VALUE, K.CKA_PRIVATE_EXPONENT, K.CKA_PRIME_1, K.CKA_PRIME_2, K.CKA_EXPONENT_1, K.CKA_EXPONENT_2, K.CKA_COEFFICIENT]

def label(ref, suffix=""):
    return ("o" + ref[1:] + suffix).encode()

def rnd(r, n):
    return bytes(r.randrange(256) for _ in range(n))

def base(ref, klass, token, private, r, suffix=""):
    t = [A_ulong(K.CKA_CLASS, klass), A_bool(K.CKA_TOKEN, token), A_bool(K.CKA_PRIVATE, private), A_bytes(K.CKA_LABEL, label(ref, suffix))]
    r.shuffle(t)
    return t

def der_octet(b):
    n = len(b)
    if n < 128: return bytes([4, n]) + b
    if n < 256: return bytes([4, 0x81, n]) + b
    return bytes([4, 0x82, n >> 8, n & 255]) + b

def make(kind, ref, r, token=False, private=False, extra=None, flags=None, vlen=None, idv=None, suffix=""):
    """returns (template, info) - info: dict with 'secret' {type: bytes}, 'klass', 'ktype'"""
    info = {"secret": {}, "kind": kind}
    fl = dict(flags or {})
    def boolflag(t, name, default):
        return A_bool(t, fl.get(name, default))
    if kind == "data":
        t = base(ref, K.CKO_DATA, token, private, r, suffix)
        val = rnd(r, vlen if vlen is not None else r.choice([0, 1, 16, 24, 40, 100]))
        t += [A_bytes(K.CKA_VALUE, val), A_bytes(K.CKA_APPLICATION, ("app%d" % r.randrange(3)).encode())]
        if r.random() < 0.5: t.append(A_bytes(K.CKA_OBJECT_ID, rnd(r, 5)))
        info["klass"] = K.CKO_DATA; info["secret"][K.CKA_VALUE] = val
    elif kind == "cert":
        t = base(ref, K.CKO_CERTIFICATE, token, private, r, suffix)
        val = rnd(r, vlen if vlen is not None else r.choice([20, 60, 300]))
        t += [A_ulong(K.CKA_CERTIFICATE_TYPE, K.CKC_X_509), A_bytes(K.CKA_SUBJECT, b"\x30\x0b" + rnd(r, 11)), A_bytes(K.CKA_VALUE, val),
              A_bytes(K.CKA_ID, idv if idv is not None else rnd(r, 4))]
        info["klass"] = K.CKO_CERTIFICATE; info["secret"][K.CKA_VALUE] = val
    elif kind in ("aes", "generic", "des3"):
        t = base(ref, K.CKO_SECRET_KEY, token, private, r, suffix)
        if kind == "aes": kt = K.CKK_AES; n = vlen or r.choice([16, 24, 32])
        elif kind == "des3": kt = K.CKK_DES3; n = 24
        else: kt = K.CKK_GENERIC_SECRET; n = vlen or r.choice([16, 20, 32, 48])
        val = rnd(r, n)
        t += [A_ulong(K.CKA_KEY_TYPE, kt), A_bytes(K.CKA_VALUE, val), A_bytes(K.CKA_ID, idv if idv is not None else rnd(r, 4)),
              boolflag(K.CKA_SENSITIVE, "sensitive", False), boolflag(K.CKA_EXTRACTABLE, "extractable", True),
              boolflag(K.CKA_ENCRYPT, "encrypt", True), boolflag(K.CKA_DECRYPT, "decrypt", True), boolflag(K.CKA_SIGN, "sign", True),
              boolflag(K.CKA_VERIFY, "verify", True), boolflag(K.CKA_WRAP, "wrap", True), boolflag(K.CKA_UNWRAP, "unwrap", True), boolflag(K.CKA_DERIVE, "derive", True)]
        info["klass"] = K.CKO_SECRET_KEY; info["ktype"] = kt; info["secret"][K.CKA_VALUE] = val
        if fl.get("kcv") and kind in ("aes", "generic"):
            # the application supplies the (correct) key check value itself instead of leaving it to the library
            import decoder
            cv = decoder.kcv(kind, val)
            if cv: t.append(A_bytes(K.CKA_CHECK_VALUE, cv)); info["kcv"] = cv
    elif kind == "rsa_pub":
        k = POOL["rsa"][fl.get("pool", r.randrange(len(POOL["rsa"])))]
        t = base(ref, K.CKO_PUBLIC_KEY, token, private, r, suffix)
        t += [A_ulong(K.CKA_KEY_TYPE, K.CKK_RSA), A_bytes(K.CKA_MODULUS, k["n"]), A_bytes(K.CKA_PUBLIC_EXPONENT, k["e"]), A_bytes(K.CKA_ID, idv if idv is not None else rnd(r, 4)),
              boolflag(K.CKA_VERIFY, "verify", True), boolflag(K.CKA_ENCRYPT, "encrypt", True), boolflag(K.CKA_WRAP, "wrap", True), boolflag(K.CKA_DERIVE, "derive", False)]
        info["klass"] = K.CKO_PUBLIC_KEY; info["ktype"] = K.CKK_RSA
    elif kind == "rsa_priv":
        k = POOL["rsa"][fl.get("pool", r.randrange(len(POOL["rsa"])))]
        t = base(ref, K.CKO_PRIVATE_KEY, token, private, r, suffix)
        t += [A_ulong(K.CKA_KEY_TYPE, K.CKK_RSA), A_bytes(K.CKA_MODULUS, k["n"]), A_bytes(K.CKA_PUBLIC_EXPONENT, k["e"]), A_bytes(K.CKA_PRIVATE_EXPONENT, k["d"]),
              A_bytes(K.CKA_PRIME_1, k["p"]), A_bytes(K.CKA_PRIME_2, k["q"]), A_bytes(K.CKA_EXPONENT_1, k["dp"]), A_bytes(K.CKA_EXPONENT_2, k["dq"]), A_bytes(K.CKA_COEFFICIENT, k["qinv"]),
              A_bytes(K.CKA_ID, idv if idv is not None else rnd(r, 4)),
              boolflag(K.CKA_SENSITIVE, "sensitive", False), boolflag(K.CKA_EXTRACTABLE, "extractable", True),
              boolflag(K.CKA_SIGN, "sign", True), boolflag(K.CKA_DECRYPT, "decrypt", True), boolflag(K.CKA_UNWRAP, "unwrap", True), boolflag(K.CKA_DERIVE, "derive", False)]
        info["klass"] = K.CKO_PRIVATE_KEY; info["ktype"] = K.CKK_RSA
        for a, f in ((K.CKA_PRIVATE_EXPONENT, "d"), (K.CKA_PRIME_1, "p"), (K.CKA_PRIME_2, "q"), (K.CKA_EXPONENT_1, "dp"), (K.CKA_EXPONENT_2, "dq"), (K.CKA_COEFFICIENT, "qinv")):
            info["secret"][a] = bytes.fromhex(k[f])
    elif kind == "ec_pub":
        k = POOL["ec"][fl.get("pool", r.randrange(len(POOL["ec"])))]
        t = base(ref, K.CKO_PUBLIC_KEY, token, private, r, suffix)
        t += [A_ulong(K.CKA_KEY_TYPE, K.CKK_EC), A_bytes(K.CKA_EC_PARAMS, k["params"]), A_bytes(K.CKA_EC_POINT, der_octet(bytes.fromhex(k["q"]))),
              A_bytes(K.CKA_ID, idv if idv is not None else rnd(r, 4)), boolflag(K.CKA_VERIFY, "verify", True), boolflag(K.CKA_ENCRYPT, "encrypt", False),
              boolflag(K.CKA_WRAP, "wrap", False), boolflag(K.CKA_DERIVE, "derive", True)]
        info["klass"] = K.CKO_PUBLIC_KEY; info["ktype"] = K.CKK_EC
    elif kind == "ec_priv":
        k = POOL["ec"][fl.get("pool", r.randrange(len(POOL["ec"])))]
        t = base(ref, K.CKO_PRIVATE_KEY, token, private, r, suffix)
        t += [A_ulong(K.CKA_KEY_TYPE, K.CKK_EC), A_bytes(K.CKA_EC_PARAMS, k["params"]), A_bytes(K.CKA_VALUE, k["d"]),
              A_bytes(K.CKA_ID, idv if idv is not None else rnd(r, 4)),
              boolflag(K.CKA_SENSITIVE, "sensitive", False), boolflag(K.CKA_EXTRACTABLE, "extractable", True),
              boolflag(K.CKA_SIGN, "sign", True), boolflag(K.CKA_DERIVE, "derive", True), boolflag(K.CKA_DECRYPT, "decrypt", False), boolflag(K.CKA_UNWRAP, "unwrap", False)]
        info["klass"] = K.CKO_PRIVATE_KEY; info["ktype"] = K.CKK_EC; info["secret"][K.CKA_VALUE] = bytes.fromhex(k["d"])
    elif kind in ("dsa_priv", "dh_priv"):
        # imported DSA / DH private keys: the numbers only need to be stored, read back and access-controlled here
        t = base(ref, K.CKO_PRIVATE_KEY, token, private, r, suffix)
        prime = bytearray(rnd(r, 128)); prime[0] |= 0x80; prime[-1] |= 1
        val = rnd(r, 20 if kind == "dsa_priv" else 32)
        t += [A_ulong(K.CKA_KEY_TYPE, K.CKK_DSA if kind == "dsa_priv" else K.CKK_DH), A_bytes(K.CKA_PRIME, bytes(prime)), A_bytes(K.CKA_BASE, rnd(r, 128)), A_bytes(K.CKA_VALUE, val),
              A_bytes(K.CKA_ID, idv if idv is not None else rnd(r, 4)), boolflag(K.CKA_SENSITIVE, "sensitive", False), boolflag(K.CKA_EXTRACTABLE, "extractable", True),
              boolflag(K.CKA_DERIVE, "derive", kind == "dh_priv"), boolflag(K.CKA_SIGN, "sign", kind == "dsa_priv"), boolflag(K.CKA_DECRYPT, "decrypt", False), boolflag(K.CKA_UNWRAP, "unwrap", False)]
        if kind == "dsa_priv": t.append(A_bytes(K.CKA_SUBPRIME, rnd(r, 20)))
        info["klass"] = K.CKO_PRIVATE_KEY; info["ktype"] = K.CKK_DSA if kind == "dsa_priv" else K.CKK_DH; info["secret"][K.CKA_VALUE] = val
    elif kind in ("dsa_params", "dh_params"):
        # domain parameters objects (no key material): any odd "prime" will do for storage and access-control purposes
        t = base(ref, K.CKO_DOMAIN_PARAMETERS, token, private, r, suffix)
        prime = bytearray(rnd(r, 128)); prime[0] |= 0x80; prime[-1] |= 1
        t += [A_ulong(K.CKA_KEY_TYPE, K.CKK_DSA if kind == "dsa_params" else K.CKK_DH), A_bytes(K.CKA_PRIME, bytes(prime)), A_bytes(K.CKA_BASE, rnd(r, 128))]
        if kind == "dsa_params": t.append(A_bytes(K.CKA_SUBPRIME, rnd(r, 20)))
        info["klass"] = K.CKO_DOMAIN_PARAMETERS; info["ktype"] = K.CKK_DSA if kind == "dsa_params" else K.CKK_DH
    else:
        raise ValueError(kind)
    if fl.get("omit_private"): t = [e for e in t if e[0] != K.CKA_PRIVATE]
    if extra: t += extra
    return t, info

READ_SUPERSET = [K.CKA_CLASS, K.CKA_TOKEN, K.CKA_PRIVATE, K.CKA_LABEL, K.CKA_VALUE, K.CKA_ID, K.CKA_APPLICATION, K.CKA_KEY_TYPE,
                 K.CKA_SENSITIVE, K.CKA_EXTRACTABLE, K.CKA_MODIFIABLE, K.CKA_COPYABLE, K.CKA_DESTROYABLE,
                 K.CKA_LOCAL, K.CKA_ALWAYS_SENSITIVE, K.CKA_NEVER_EXTRACTABLE, K.CKA_KEY_GEN_MECHANISM, K.CKA_TRUSTED, K.CKA_WRAP_WITH_TRUSTED,
                 K.CKA_MODULUS, K.CKA_PRIVATE_EXPONENT, K.CKA_PRIME_1, K.CKA_EC_PARAMS, K.CKA_EC_POINT, K.CKA_SUBJECT, K.CKA_VALUE_LEN,
                 K.CKA_ENCRYPT, K.CKA_DECRYPT, K.CKA_SIGN, K.CKA_VERIFY, K.CKA_WRAP, K.CKA_UNWRAP, K.CKA_DERIVE]
