"""Driver for the p11sim zygote: send a plan, get (status, history, result)."""
import os, sys, json, subprocess, tempfile, shutil, atexit

VERIF = os.path.dirname(os.path.dirname(os.path.abspath(__file__)))

def exe_path(variant="asan"):
    return os.path.join(os.environ.get("VERIF_BUILD", os.path.join(VERIF, ".build")), variant, "p11sim")

def scratch_root():
    for d in ("/dev/shm", "/var/tmp", "/tmp"):
        if os.path.isdir(d) and os.access(d, os.W_OK):
            return d
    return "/tmp"

class RunResult:
    __slots__ = ("status", "wstatus", "hist", "result", "stderr", "plan", "aux")
    def __init__(self):
        self.status = "none"; self.wstatus = 0; self.hist = []; self.result = None; self.stderr = ""; self.plan = None; self.aux = {}
    @property
    def hash(self):
        return self.result.get("hash") if self.result else None
    @property
    def died(self):
        return self.result is None or self.result.get("status") != "done"
    def why(self):
        if self.result is None:
            return "no result record (wait status %d) %s" % (self.wstatus, self.stderr[-2000:])
        return "%s exit=%s %s" % (self.result.get("status"), self.result.get("exit"), self.result.get("why", ""))

class Zygote:
    def __init__(self, variant="asan"):
        self.variant = variant
        self.dir = tempfile.mkdtemp(prefix="p11sim-", dir=scratch_root())
        self.proc = None
        self.n = 0
        atexit.register(self.close)
        self._start()

    def _start(self):
        self.proc = subprocess.Popen([exe_path(self.variant), "zygote"], stdin=subprocess.PIPE, stdout=subprocess.PIPE,
                                     stderr=subprocess.DEVNULL, env={}, cwd=self.dir)

    def close(self):
        if self.proc is not None:
            try:
                self.proc.stdin.write(b"QUIT\n"); self.proc.stdin.flush()
                self.proc.wait(timeout=5)
            except Exception:
                try: self.proc.kill()
                except Exception: pass
            self.proc = None
        if self.dir and os.path.isdir(self.dir):
            shutil.rmtree(self.dir, ignore_errors=True)
            self.dir = None

    def run(self, plan, keep_fs_events=True):
        if plan.get("knobs", {}).get("tokendir") == "@scratch":
            # a real scratch directory behind the pass-through path of the file layer (SQLite object store): created for this run, removed after it
            import copy as _copy
            real = tempfile.mkdtemp(prefix="tok-", dir=self.dir)
            p2 = _copy.deepcopy(plan); p2["knobs"]["tokendir"] = real
            try:
                r = self.run(p2, keep_fs_events); r.plan = plan
                return r
            finally:
                shutil.rmtree(real, ignore_errors=True)
        self.n += 1
        pin = os.path.join(self.dir, "plan.json")
        pout = os.path.join(self.dir, "out.jsonl")
        with open(pin, "w") as f:
            json.dump(plan, f, separators=(",", ":"))
        for p in (pout, pout + ".err"):
            try: os.unlink(p)
            except OSError: pass
        if self.proc is None or self.proc.poll() is not None:
            self._start()
        self.proc.stdin.write(("RUN %s %s\n" % (pin, pout)).encode()); self.proc.stdin.flush()
        line = self.proc.stdout.readline()
        r = RunResult(); r.plan = plan
        if not line.startswith(b"DONE"):
            r.status = "zygote-died"
            self.proc = None
            return r
        r.wstatus = int(line.split()[1])
        try:
            with open(pout) as f:
                for ln in f:
                    if not ln.strip():
                        continue
                    try:
                        ev = json.loads(ln)
                    except ValueError:
                        continue
                    if "result" in ev:
                        r.result = ev["result"]
                    else:
                        r.hist.append(ev)
        except OSError:
            pass
        try:
            with open(pout + ".err", errors="replace") as f:
                r.stderr = f.read()
        except OSError:
            pass
        r.status = r.result["status"] if r.result else "died"
        return r
