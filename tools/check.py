#!/usr/bin/env python3
"""Supervisor of the deterministic-simulation checks (DESIGN 3, 7, 8).

  tools/check.py run <PROP> [--tier quick|thorough] [--runs N] [--budget S] [--workers W]
  tools/check.py replay <file>
Exit 0: property held on everything explored (known findings may be printed)
Exit 1: VIOLATION property=<id> replay=<path> printed
Exit 2: the machinery itself failed (build, nondeterminism gate)
"""
import os, sys, json, time, importlib, hashlib, argparse, subprocess, traceback, copy, random
import multiprocessing as mp

HERE = os.path.dirname(os.path.abspath(__file__))
VERIF = os.path.dirname(HERE)
EVDIR = os.environ.get("VERIF_EVIDENCE") or os.path.join(VERIF, "evidence")     # development aid (tools/trymut.sh): keep evidence of runs against a MUTATED tree out of /verif/evidence
sys.path.insert(0, HERE)
os.environ.setdefault("PYTHONHASHSEED", "0")

import simdrv

MASK = (1 << 64) - 1
def splitmix(x):
    x = (x + 0x9E3779B97F4A7C15) & MASK
    z = x
    z = ((z ^ (z >> 30)) * 0xBF58476D1CE4E5B9) & MASK
    z = ((z ^ (z >> 27)) * 0x94D049BB133111EB) & MASK
    return z ^ (z >> 31)

def run_seed(base, prop, i):
    h = int.from_bytes(hashlib.sha256(prop.encode()).digest()[:8], "little")
    return splitmix(splitmix(base ^ h) + i) & ((1 << 62) - 1)

def load_prop(prop):
    return importlib.import_module("props." + prop.lower())

def make_runner(mod):
    """what executes a plan: one zygote of the property's build variant, or the property's own composite runner (C20: several configurations per plan)"""
    if hasattr(mod, "Runner"): return mod.Runner()
    return simdrv.Zygote(getattr(mod, "VARIANT", "asan"))

def build_all(mod):
    for v in getattr(mod, "VARIANTS", [getattr(mod, "VARIANT", "asan")]): build(v)

def build(variant="asan", quiet=True):
    r = subprocess.run([sys.executable, os.path.join(HERE, "build.py"), "--variant", variant] + (["--quiet"] if quiet else []),
                       stdout=subprocess.PIPE, stderr=subprocess.PIPE, text=True)
    if r.returncode != 0:
        sys.stderr.write(r.stdout + r.stderr)
        print("BUILD-FAILED: the verification build of /repo's working tree failed (exit 2)")
        sys.exit(2)

# ------------------------------------------------------------------ known findings
def load_known(prop):
    out = []
    p = os.path.join(VERIF, "known_findings.jsonl")
    if os.path.exists(p):
        for ln in open(p):
            ln = ln.strip()
            if not ln or ln.startswith("#"):
                continue
            k = json.loads(ln)
            if k.get("property") == prop and k.get("status") == "known":
                out.append(k)
    return out

def sig_match(sig, v):
    for key, allowed in sig.items():
        val = v.get(key)
        if isinstance(allowed, list):
            if val not in allowed:
                return False
        elif val != allowed:
            return False
    return True

def match_known(known, v):
    for k in known:
        if sig_match(k["signature"], v):
            return k
    return None

# ------------------------------------------------------------------ worker
_Z = None
_MOD = None
_TIER = "quick"
def _winit(prop, tier, variant):
    global _Z, _MOD, _TIER
    _MOD = load_prop(prop); _TIER = tier
    _Z = make_runner(_MOD)

def classify_death(r):
    """a run that did not finish: what kind of event was it"""
    if r.result is None:
        ws = r.wstatus
        if os.WIFEXITED(ws) and os.WEXITSTATUS(ws) == 77:
            return {"class": "died.sanitizer", "msg": "sanitizer report (no result record): " + san_summary(r.stderr), "manifestation": "sanitizer", "report": san_summary(r.stderr), "cur_op": last_inv_op(r), "cur_tid": 0}
        if os.WIFSIGNALED(ws):
            return {"class": "died.signal", "msg": "killed by signal %d" % os.WTERMSIG(ws), "manifestation": "signal", "cur_op": last_inv_op(r), "cur_tid": 0}
        return {"class": "sim.noresult", "msg": r.why(), "sim_failure": True}
    code = r.result.get("exit")
    why = r.result.get("why", "")
    if code == 96:
        return {"class": "sim.watchdog", "msg": why, "sim_failure": True}
    kind = {99: "exit", 77: "sanitizer", 97: "deadlock", 98: "hang"}.get(code, "signal")
    d = {"class": "died." + kind, "msg": why, "manifestation": kind, "cur_op": r.result.get("cur_op"), "cur_tid": r.result.get("cur_tid")}
    if kind == "sanitizer":
        d["report"] = san_summary(r.stderr)
    return d

def last_inv_op(r):
    for e in reversed(r.hist):
        if e.get("e") == "inv": return e.get("op")
    return None

def san_summary(err):
    for ln in err.splitlines():
        if "ERROR: AddressSanitizer" in ln or "runtime error:" in ln:
            return ln.strip()[:300]
    return err.strip()[:300]

def eval_run(mod, plan, r):
    """returns (violations, cover)"""
    viols = []
    if r.died:
        d = classify_death(r)
        d["died"] = True
        try:
            op = plan["tasks"][d.get("cur_tid") or 0]["ops"][d.get("cur_op")]
            d["call"] = op.get("f") or ("@" + op.get("act", "?"))
        except Exception:
            d["call"] = None
        viols.append(d)
    try:
        vs = mod.check(plan, r)
    except Exception as e:
        vs = [{"class": "sim.oracle_exception", "msg": traceback.format_exc()[-1500:], "sim_failure": True}]
    viols.extend(vs)
    try:
        cov = mod.cover(plan, r)
    except Exception as e:
        cov = {"keys": [], "nontrivial": False, "stats": {}, "err": traceback.format_exc()[-500:]}
    return viols, cov

def _work(job):
    i, seed = job
    t0 = time.time()
    plan = _MOD.gen(seed, _TIER, i)
    if hasattr(_MOD, "prepare"):
        plan = _MOD.prepare(plan, _Z)
    r = _Z.run(plan)
    viols, cov = eval_run(_MOD, plan, r)
    out = {"i": i, "seed": seed, "hash": r.hash, "viols": viols, "cov": cov, "wall": time.time() - t0,
           "events": (r.result or {}).get("events", 0), "steps": (r.result or {}).get("steps", 0),
           "fired": (r.result or {}).get("fired", {}), "switches": (r.result or {}).get("switches", {}),
           "fsops": (r.result or {}).get("fsops", {}), "edges": (r.result or {}).get("edges", 0), "cov_edges": (r.result or {}).get("cov", 0),
           "crash": (r.result or {}).get("crash"), "nops": sum(len(t["ops"]) for t in plan["tasks"])}
    if viols:
        out["plan"] = plan
        out["trace"] = (r.result or {}).get("trace", [])
        out["stderr"] = r.stderr[-3000:]
    elif i < 3:
        out["sample"] = sample_of(plan, r)
    return out

def sample_of(plan, r):
    ops = []
    for t in plan["tasks"]:
        for op in t["ops"][:40]:
            ops.append(("t%d:" % plan["tasks"].index(t)) + brief(op))
    rets = [("%s=%s" % (e.get("f"), e.get("rv"))) for e in r.hist if e.get("e") == "ret"][:60]
    return {"seed": plan.get("seed"), "ops": ops, "returns": rets, "knobs": {k: v for k, v in plan.get("knobs", {}).items() if k != "conf"}, "faults": plan.get("faults", []), "crash": {k: v for k, v in (plan.get("crash") or {}).items() if k != "recover"}}

def brief(op):
    f = op.get("f") or ("@" + op.get("act", "?"))
    extra = []
    for k in ("s", "o", "slot", "user", "out", "key", "base"):
        if k in op: extra.append("%s=%s" % (k, op[k]))
    return f + ("(" + ",".join(extra) + ")" if extra else "")

# ------------------------------------------------------------------ minimisation (DESIGN 2.8)
def vclass(v):
    return v.get("class")

KEYFIELDS = ("class", "call", "target", "manifestation", "file_role", "phase", "defect", "fault_fs")
def vkey(v):
    return tuple(str(v.get(k)) for k in KEYFIELDS)

def reproduce(z, mod, plan, want):
    """want: a violation class (str) or a violation dict (then the whole key - class, call, target, manifestation, window - must persist)"""
    r = z.run(plan)
    viols, _ = eval_run(mod, plan, r)
    for v in viols:
        if (vclass(v) == want) if isinstance(want, str) else (vkey(v) == vkey(want)):
            return v, r
    return None, r

def minimise(z, mod, plan, v, budget=120):
    """greedy ddmin over ops, faults and schedule; the violation CLASS must persist"""
    want = v
    best = copy.deepcopy(plan); bestv = v
    runs = [0]
    def attempt(cand):
        if runs[0] >= budget:
            return None
        runs[0] += 1
        vv, r = reproduce(z, mod, cand, want)
        return vv
    # pin the schedule of the failing run first (guided replay) if there was one
    # 1. drop faults
    changed = True
    while changed and runs[0] < budget:
        changed = False
        for k in range(len(best.get("faults", []))):
            cand = copy.deepcopy(best); del cand["faults"][k]
            vv = attempt(cand)
            if vv: best, bestv, changed = cand, vv, True; break
    # 2. drop whole tasks (never task 0)
    for k in range(len(best["tasks"]) - 1, 0, -1):
        cand = copy.deepcopy(best)
        cand["tasks"][k]["ops"] = [op for op in cand["tasks"][k]["ops"] if op.get("act") in ("start",)][:0]
        vv = attempt(cand)
        if vv: best, bestv = cand, vv
    # 3. drop chunks of ops, halving chunk size
    for ti in range(len(best["tasks"])):
        n = len(best["tasks"][ti]["ops"])
        chunk = max(1, n // 2)
        while chunk >= 1 and runs[0] < budget:
            k = 0; progress = False
            while k < len(best["tasks"][ti]["ops"]) and runs[0] < budget:
                ops = best["tasks"][ti]["ops"]
                seg = ops[k:k + chunk]
                if any(op.get("keep") or op.get("act") == "barrier" for op in seg):      # barriers pair up across tasks: dropping one manufactures a deadlock or un-quiets a quiet point
                    k += chunk; continue
                cand = copy.deepcopy(best)
                del cand["tasks"][ti]["ops"][k:k + chunk]
                fix_indices(cand, ti, k, chunk)
                vv = attempt(cand)
                if vv: best, bestv, progress = cand, vv, True
                else: k += chunk
            if chunk == 1 and not progress: break
            chunk = max(1, chunk // 2) if chunk > 1 else (1 if progress else 0)
            if chunk == 0: break
    best["minimised"] = {"reruns": runs[0], "ops": sum(len(t["ops"]) for t in best["tasks"])}
    return best, bestv

def fix_indices(plan, ti, k, n):
    """after deleting ops [k,k+n) of task ti: shift fault / crash / preempt op indices"""
    nf = []
    for f in plan.get("faults", []):
        if f["tid"] == ti:
            if k <= f["op"] < k + n: continue
            if f["op"] >= k + n: f["op"] -= n
        nf.append(f)
    if "faults" in plan: plan["faults"] = nf
    c = plan.get("crash")
    if c and c.get("tid") == ti:
        if k <= c["op"] < k + n: plan.pop("crash")
        elif c["op"] >= k + n: c["op"] -= n
    pre = plan.get("knobs", {}).get("preempt")
    if pre:
        np_ = []
        for p in pre:
            if p[0] == ti:
                if k <= p[1] < k + n: continue
                if p[1] >= k + n: p = [p[0], p[1] - n, p[2]]
            np_.append(p)
        plan["knobs"]["preempt"] = np_
    sch = plan.get("schedule")
    if sch:
        ns = []
        for d in sch:
            if d[0] == ti:
                if k <= d[1] < k + n: continue
                if d[1] >= k + n: d = [d[0], d[1] - n, d[2], d[3]]
            ns.append(d)
        plan["schedule"] = ns

# ------------------------------------------------------------------ main batch
def do_run(a):
    prop = a.prop.upper()
    tier = a.tier or os.environ.get("VERIF_TIER", "quick")
    base_seed = int(os.environ.get("VERIF_SEED", "1"))
    t_start = time.time()
    mod = load_prop(prop)
    variant = getattr(mod, "VARIANT", "asan")
    build_all(mod)
    t_built = time.time()
    known = load_known(prop)
    workers = a.workers or min(16, os.cpu_count() or 4)
    nruns = a.runs or (mod.QUICK_RUNS if tier == "quick" else getattr(mod, "THOROUGH_RUNS", 10 ** 9))
    budget = a.budget or float(os.environ.get("VERIF_BUDGET_S", getattr(mod, "QUICK_BUDGET_S", 100) if tier == "quick" else getattr(mod, "THOROUGH_BUDGET_S", 900)))
    ev = {"runs": 0, "keys": set(), "nontrivial": 0, "stats": {}, "fired": {}, "switches": {}, "fsops": {}, "events": 0, "steps": 0, "edges": 0,
          "samples": [], "known_hits": {}, "collateral": [], "hashes": set(), "crash_states": 0, "crash_points": 0, "max_cov_edges": 0}
    new_viols = []
    sim_fail = []
    # replay the listed known findings of this property first
    known_lines = []
    z0 = make_runner(mod)
    for k in known:
        rp = os.path.join(VERIF, k["replay"])
        try:
            plan = json.load(open(rp))["plan"]
        except Exception as e:
            continue
        r = z0.run(plan)
        viols, _ = eval_run(mod, plan, r)
        hit = [v for v in viols if sig_match(k["signature"], v)]
        other = []   # a minimised known-finding replay only demonstrates its finding; nothing else is judged on it
        if hit:
            known_lines.append("KNOWN-FINDING: property=%s %s [%s]" % (prop, k["what"], k["id"]))
            ev["known_hits"][k["id"]] = ev["known_hits"].get(k["id"], 0) + 1
        for v in other:
            new_viols.append({"v": v, "plan": plan, "seed": plan.get("seed", 0), "from_known_replay": k["id"]})
    for ln in known_lines:
        print(ln, flush=True)
    ctx = mp.get_context("fork")
    deadline = t_start + budget
    jobs = ((i, run_seed(base_seed, prop, i)) for i in range(nruns))
    with ctx.Pool(workers, initializer=_winit, initargs=(prop, tier, variant)) as pool:
        it = pool.imap_unordered(_work, jobs, chunksize=1)
        for out in it:
            ev["runs"] += 1
            c = out["cov"]
            for kk in c.get("keys", []): ev["keys"].add(kk)
            if c.get("nontrivial"): ev["nontrivial"] += 1
            for kk, vv in c.get("stats", {}).items(): ev["stats"][kk] = ev["stats"].get(kk, 0) + vv
            for name in ("fired", "switches", "fsops"):
                for kk, vv in out[name].items(): ev[name][kk] = ev[name].get(kk, 0) + vv
            ev["events"] += out["events"]; ev["steps"] += out["steps"]; ev["edges"] += out["edges"]
            ev["max_cov_edges"] = max(ev["max_cov_edges"], out["cov_edges"])
            if out.get("crash"):
                ev["crash_states"] += out["crash"].get("explored", 0); ev["crash_points"] += out["crash"].get("points", 0)
            if out["hash"]: ev["hashes"].add(out["hash"])
            if "sample" in out and len(ev["samples"]) < 3: ev["samples"].append(out["sample"])
            for v in out["viols"]:
                if v.get("sim_failure"):
                    sim_fail.append((out, v)); continue
                k = match_known(known, v)
                if k:
                    ev["known_hits"][k["id"]] = ev["known_hits"].get(k["id"], 0) + 1
                    continue
                if not is_prop_violation(mod, v):
                    if len(ev["collateral"]) < 20: ev["collateral"].append({"seed": out["seed"], "class": v.get("class"), "msg": str(v.get("msg"))[:200]})
                    continue
                new_viols.append({"v": v, "plan": out["plan"], "seed": out["seed"], "trace": out.get("trace"), "stderr": out.get("stderr", "")})
            if time.time() > deadline or (len(new_viols) >= 8 and not a.survey) or len(sim_fail) >= 3:
                pool.terminate(); break
    wall = time.time() - t_start
    rc = 0
    reported = []
    if a.survey:
        import collections
        cnt = collections.Counter(); ex = {}
        for nv in new_viols:
            v = nv["v"]; key = tuple((kk, str(v.get(kk))) for kk in a.survey.split(","))
            cnt[key] += 1; ex.setdefault(key, (nv["seed"], str(v.get("msg"))[:300]))
        for key, n in cnt.most_common():
            print(n, dict(key), "seed=%d" % ex[key][0]); print("     ", ex[key][1])
        print("%d runs, %d violations, %d kinds" % (ev["runs"], len(new_viols), len(cnt)))
        return 0
    if sim_fail:
        out, v = sim_fail[0]
        print("SIMULATOR-FAILURE: %s seed=%d: %s" % (v.get("class"), out["seed"], str(v.get("msg"))[:2000]))
        rc = 2
    if new_viols and rc == 0:
        zg = make_runner(mod)
        seen_classes = set()
        for nv in new_viols:
            v = nv["v"]; plan = nv["plan"]
            sigkey = (vclass(v), v.get("call"), v.get("target"), v.get("manifestation"))
            if sigkey in seen_classes: continue
            # gate: same plan, different zygote: must fail in the same class
            vv, r2 = reproduce(zg, mod, plan, v)
            if vv is None:
                print("NONDETERMINISM: seed=%d class=%s did not reproduce in a second zygote" % (nv["seed"], vclass(v)))
                rc = 2; continue
            mplan, mv = minimise(zg, mod, plan, vv, budget=getattr(mod, "SHRINK_BUDGET", 120))
            if match_known(known, mv):
                k = match_known(known, mv); ev["known_hits"][k["id"]] = ev["known_hits"].get(k["id"], 0) + 1
                continue
            seen_classes.add(sigkey)
            os.makedirs(os.path.join(EVDIR, "replay"), exist_ok=True)
            rp = os.path.join(EVDIR, "replay", "%s-%d.json" % (prop, nv["seed"]))
            json.dump({"property": prop, "violation": mv, "plan": mplan, "variant": variant, "original_ops": sum(len(t["ops"]) for t in plan["tasks"])}, open(rp, "w"), indent=1)
            # fresh-process replay must fail the same way
            rr = subprocess.run([sys.executable, os.path.join(HERE, "check.py"), "replay", rp, "--nobuild"], stdout=subprocess.PIPE, stderr=subprocess.STDOUT, text=True)
            if rr.returncode != 1:
                print("NONDETERMINISM: replay of %s in a fresh process did not reproduce (exit %d)\n%s" % (rp, rr.returncode, rr.stdout[-1500:]))
                rc = 2; continue
            print("violation class=%s %s" % (vclass(mv), json.dumps({k: mv[k] for k in mv if k not in ("msg",)}, default=str)[:600]))
            print("  " + str(mv.get("msg"))[:1200])
            print("VIOLATION property=%s replay=%s" % (prop, rp), flush=True)
            reported.append(rp)
            if rc == 0: rc = 1
        zg.close()
    write_evidence(mod, prop, tier, base_seed, ev, wall, len(reported), t_built - t_start, known, workers)
    print("%s %s: %d runs, %d distinct coverage keys, %d non-trivial, %.1fs (build %.1fs), known-finding hits %s, violations %d" %
          (prop, tier, ev["runs"], len(ev["keys"]), ev["nontrivial"], wall, t_built - t_start, dict(ev["known_hits"]), len(reported)))
    z0.close()
    return rc

def is_prop_violation(mod, v):
    c = vclass(v) or ""
    if c.startswith("died."):
        return c in getattr(mod, "DEATH_IS_VIOLATION", ())
    return True

def write_evidence(mod, prop, tier, seed, ev, wall, nviol, build_s, known, workers):
    runs = max(ev["runs"], 1)
    cov = {
        "evaluations": ev["runs"] if not getattr(mod, "EVAL_IS_CRASH_STATES", False) else max(ev["crash_states"], 1),
        "distinct_nontrivial": len(ev["keys"]),
        "rule": mod.RULE,
        "samples": ev["samples"] or [{"note": "no sample captured"}],
        "simulated_runs": ev["runs"], "nontrivial_runs": ev["nontrivial"], "distinct_event_hashes": len(ev["hashes"]),
        "runs_per_hour": int(ev["runs"] / max(wall, 1e-3) * 3600),
        "logical_time": {"events": ev["events"], "scheduler_steps": ev["steps"], "instrumented_edges": ev["edges"]},
        "faults_fired": ev["fired"], "context_switches": ev["switches"], "fs_operations": ev["fsops"],
        "crash_points": ev["crash_points"], "crash_states_explored": ev["crash_states"],
        "predicate_evaluations": ev["stats"],
        "probes_stuck_at_zero": sorted(k for k in getattr(mod, "PROBES", []) if not ev["stats"].get(k)),
        "max_distinct_edges_in_one_run": ev["max_cov_edges"],
        "known_findings_reproduced": ev["known_hits"],
        "collateral_monitor_hits": ev["collateral"],
        "components": {"real": ["src/lib/** of /repo (all PKCS#11 entry points, policy, session/slot/handle managers, object store, SecureDataManager, OpenSSL glue)", "OpenSSL libcrypto", "glibc stdio buffering", "SQLite 3 above its VFS (pager, rollback journal, hot-journal recovery, b-tree, SQL) in the runs that use the SQLite object store"],
                        "stub": ["kernel VFS (simfs: files, dirs, modes, fcntl locks, readdir order)", "SQLite VFS (sim/simvfs.inc: files on simfs, SHARED/RESERVED/PENDING/EXCLUSIVE locks per file handle, fsync = no durability event, journal created with its database's mode, deterministic randomness/time/sleep)", "RNG (seeded RAND_METHOD)", "scheduler / process boundary (parked threads, symbol-renamed library copies)", "time(), getpid(), syslog(), exit()"]},
        "workers": workers, "build_s": round(build_s, 1),
    }
    if hasattr(mod, "COMPONENTS"): cov["components"] = mod.COMPONENTS
    doc = {"property_id": prop, "tier": tier, "seed": seed, "level": mod.LEVEL, "coverage": cov,
           "assumptions": getattr(mod, "ASSUMPTIONS", []) + ["simfs models the POSIX semantics the library relies on (checked by the stub-fidelity self-test)", "process death loses only user-space buffers (the library never calls fsync; power loss is out of scope)"],
           "wall_s": round(wall, 2), "violations": nviol}
    os.makedirs(EVDIR, exist_ok=True)
    json.dump(doc, open(os.path.join(EVDIR, prop + ".json"), "w"), indent=1, default=str)

def do_replay(a):
    doc = json.load(open(a.file))
    prop = doc["property"]
    mod = load_prop(prop)
    if not a.nobuild:
        build_all(mod)
    z = make_runner(mod)
    want = vclass(doc["violation"])
    r = z.run(doc["plan"])
    viols, _ = eval_run(mod, doc["plan"], r)
    z.close()
    for v in viols:
        if vkey(v) == vkey(doc["violation"]):
            print("reproduced: class=%s %s" % (want, str(v.get("msg"))[:1500]))
            if a.verbose:
                for e in r.hist: print(json.dumps(e)[:600])
                print(r.stderr[-3000:])
            print("VIOLATION property=%s replay=%s" % (prop, a.file))
            return 1
    print("not reproduced (violations seen: %s)" % [vclass(v) for v in viols])
    if a.verbose:
        for e in r.hist: print(json.dumps(e)[:600])
    return 0

def do_mkknown(a):
    """development aid: reproduce seed -> minimise -> write known/<id>.json (the file is committed; never written by a check run)"""
    prop = a.prop.upper(); mod = load_prop(prop)
    build_all(mod)
    z = make_runner(mod)
    plan = None
    for i in range(a.maxindex):
        if run_seed(int(os.environ.get("VERIF_SEED", "1")), prop, i) == a.seed:
            plan = mod.gen(a.seed, "quick", i)
            if hasattr(mod, "prepare"): plan = mod.prepare(plan, z)
            break
    if plan is None:
        print("seed not found among the first %d indices" % a.maxindex); return 2
    want = dict(kv.split("=", 1) for kv in a.match)
    r = z.run(plan); viols, _ = eval_run(mod, plan, r)
    cand = [v for v in viols if all(str(v.get(k)) == val for k, val in want.items())]
    if not cand:
        print("no matching violation; seen:", [(v.get("class"), v.get("call"), v.get("manifestation")) for v in viols]); return 2
    v = cand[0]
    # minimise while the SAME fields keep matching
    def same(vv): return vv is not None and all(str(vv.get(k)) == val for k, val in want.items())
    best = plan
    import copy as _c
    class M:
        pass
    orig_reproduce = reproduce
    def rep(zz, mm, pl, wantv):
        rr = zz.run(pl); vs, _ = eval_run(mm, pl, rr)
        for x in vs:
            if vclass(x) == vclass(wantv) and same(x): return x, rr
        return None, rr
    globals()["reproduce"] = rep
    mplan, mv = minimise(z, mod, plan, v, budget=200)
    globals()["reproduce"] = orig_reproduce
    os.makedirs(os.path.join(VERIF, "known"), exist_ok=True)
    out = os.path.join(VERIF, "known", a.id + ".json")
    json.dump({"property": prop, "violation": mv, "plan": mplan, "variant": getattr(mod, "VARIANT", "asan")}, open(out, "w"), indent=1)
    print("wrote", out, "ops:", sum(len(t["ops"]) for t in mplan["tasks"]), "violation:", {k: mv.get(k) for k in mv if k != "msg"}); print(mv.get("msg"))
    z.close(); return 0

def canon_run(plan, r):
    """what an application can observe: per op the function and return code(s), plus identified search/read-out contents (handle numbers and file names left out)"""
    import hist as H
    out = []
    def strip(x):
        if isinstance(x, dict):
            return {k: strip(v) for k, v in x.items() if k not in ("h", "h2", "hs", "ho", "hk", "hw", "hu", "hb", "n", "t", "p", "e", "op", "edges", "files", "slot", "path", "serial", "utc", "cap", "fsn", "ny", "wmax", "ym")}
        if isinstance(x, list): return [strip(v) for v in x]
        return x
    for tid, k, op, ret in H.walk(plan, r):
        d = strip(ret)
        if "ids" in d: d["ids"] = sorted((e.get("ref") or "?", e.get("label")) for e in ret.get("ids", []))
        if "objs" in d: d["objs"] = sorted((json.dumps(o.get("attrs"), sort_keys=True) for o in ret.get("objs", [])))
        if "batches" in d: d["batches"] = [(b.get("max"), b.get("rv"), b.get("n")) for b in ret.get("batches", [])]
        d.pop("tree", None); d.pop("scan", None); d.pop("slots", None); d.pop("sessions", None); d.pop("objects", None)
        out.append((tid, k, d))
    return out

def real_tree(root):
    tree = {}
    for d, dirs, files in os.walk(root):
        for fn in files:
            p = os.path.join(d, fn)
            with open(p, "rb") as f: data = f.read()
            tree["/sim/tokens" + p[len(root):]] = {"mode": "%04o" % (os.stat(p).st_mode & 0o7777), "hex": data.hex()}
        for dn in dirs:
            p = os.path.join(d, dn)
            tree["/sim/tokens" + p[len(root):]] = {"dir": True, "mode": "%04o" % (os.stat(p).st_mode & 0o7777)}
    return tree

def disk_canon(tree):
    """decoded disk: per token label -> sorted list of decoded object attribute maps (raw stored values), generation numbers ignored"""
    import decoder
    out = {}
    for dname, td in decoder.decode_tree(tree).items():
        objs_ = []
        for fname, parsed in sorted(td.objects.items()):
            if isinstance(parsed, Exception): objs_.append((fname, "UNPARSEABLE")); continue
            objs_.append((fname, sorted((t, kind, v.hex() if isinstance(v, (bytes, bytearray)) else repr(v)) for t, (kind, v) in parsed[1].items())))
        tok = getattr(td, "token_attrs", None)
        out[dname] = {"objects": objs_, "token": sorted((t, kind, v.hex() if isinstance(v, (bytes, bytearray)) else repr(v)) for t, (kind, v) in tok.items()) if tok else None,
                      "modes": sorted(td.modes.items())}
    return out

def do_selftest(a):
    """determinism (same plan, two zygotes with different histories -> same event hash) and stub fidelity (simfs vs the real kernel)"""
    import shutil, tempfile
    t0 = time.time()
    build("asan")
    props = [p[:-3].upper() for p in sorted(os.listdir(os.path.join(HERE, "props"))) if p.startswith("c") and p.endswith(".py")]
    z1 = simdrv.Zygote(); z2 = simdrv.Zygote()
    n = a.n
    mism = []; total = 0; per = {}
    # perturb z2's history first
    warm = load_prop("C03")
    for i in range(5): z2.run(warm.gen(run_seed(99, "C03", i), "quick", i))
    for prop in props:
        mod = load_prop(prop)
        cnt = max(2, n // len(props))
        if prop == "C16": cnt = min(cnt, 3)
        for i in range(cnt):
            seed = run_seed(int(os.environ.get("VERIF_SEED", "1")) + 1000, prop, i)
            plan = mod.gen(seed, "quick", i)
            if hasattr(mod, "prepare"): plan = mod.prepare(plan, z1)
            r1 = z1.run(plan); r2 = z2.run(plan)
            total += 1; per[prop] = per.get(prop, 0) + 1
            if r1.hash != r2.hash or r1.hash is None:
                mism.append((prop, seed, r1.hash, r2.hash))
    print("determinism: %d plans over %d properties run in two zygotes with different histories: %d hash mismatches" % (total, len(props), len(mism)))
    for m in mism[:10]: print("  MISMATCH", m)
    # stub fidelity
    fid_bad = []; fid_n = 0
    scratch = tempfile.mkdtemp(prefix="p11real-", dir=simdrv.scratch_root())
    try:
        for prop in ("C05", "C14", "C11", "C03", "C19"):
            mod = load_prop(prop)
            for i in range(max(2, a.n // 10)):
                idx = i * 4 + 1 if prop == "C05" else i   # fault-free, non-fixture plans of C05
                if prop == "C05": idx += 2 * len(mod.fixtures())
                seed = run_seed(4711, prop, idx)
                plan = mod.gen(seed, "quick", idx)
                if plan.get("faults") or plan.get("profile") in ("fixture", "fault"): continue
                if plan["knobs"].get("tokendir") or plan["knobs"].get("conf", {}).get("objectstore.backend") == "db": continue      # already on a real directory (SQLite stratum)
                if any(op.get("act") in ("rmtoken", "corrupt", "fsbackup") for t_ in plan["tasks"] for op in t_["ops"]): continue    # harness actions that exist on the simulated disk only
                plan["knobs"]["final_disk"] = True
                plan["knobs"]["short_io"] = False
                plan["knobs"]["proc_umask"] = "%03o" % (os.umask(0)); os.umask(int(plan["knobs"]["proc_umask"], 8))
                rs = z1.run(plan)
                real = os.path.join(scratch, "t%d" % fid_n); os.makedirs(real)
                plan2 = copy.deepcopy(plan); plan2["knobs"]["tokendir"] = real
                rr = z1.run(plan2)
                fid_n += 1
                cs, cr = canon_run(plan, rs), canon_run(plan2, rr)
                if cs != cr:
                    k = next((j for j in range(min(len(cs), len(cr))) if cs[j] != cr[j]), None)
                    fid_bad.append((prop, seed, "history differs at %s: sim %s / real %s" % (k, str(cs[k])[:300] if k is not None else len(cs), str(cr[k])[:300] if k is not None else len(cr))))
                    continue
                simtree = None
                for e in rs.hist:
                    if e.get("e") == "final_disk": simtree = e["tree"]
                ds = disk_canon(simtree or {}); dr = disk_canon(real_tree(real))
                if ds != dr:
                    fid_bad.append((prop, seed, "final decoded disks differ: %s" % str([(k, ds.get(k) == dr.get(k)) for k in sorted(set(ds) | set(dr))])[:300]))
                shutil.rmtree(real, ignore_errors=True)
    finally:
        shutil.rmtree(scratch, ignore_errors=True)
    print("stub fidelity: %d fault-free plans executed on simfs and on the real kernel (pass-through): %d disagreements" % (fid_n, len(fid_bad)))
    for m in fid_bad[:10]: print("  DISAGREE", m)
    os.makedirs(EVDIR, exist_ok=True)
    json.dump({"determinism": {"plans": total, "per_property": per, "mismatches": [list(m) for m in mism]}, "stub_fidelity": {"plans": fid_n, "disagreements": [list(m) for m in fid_bad]}, "wall_s": round(time.time() - t0, 1)},
              open(os.path.join(EVDIR, "selftest.json"), "w"), indent=1)
    z1.close(); z2.close()
    return 0 if not mism and not fid_bad else 2

def main():
    ap = argparse.ArgumentParser()
    sub = ap.add_subparsers(dest="cmd")
    r = sub.add_parser("run"); r.add_argument("prop"); r.add_argument("--tier"); r.add_argument("--runs", type=int); r.add_argument("--budget", type=float); r.add_argument("--workers", type=int); r.add_argument("--survey", help="comma-separated violation fields: count all violations by these fields, no gating (development aid)")
    p = sub.add_parser("replay"); p.add_argument("file"); p.add_argument("--nobuild", action="store_true"); p.add_argument("--verbose", "-v", action="store_true")
    k = sub.add_parser("mkknown"); k.add_argument("prop"); k.add_argument("seed", type=int); k.add_argument("id"); k.add_argument("match", nargs="*"); k.add_argument("--maxindex", type=int, default=20000)
    st_ = sub.add_parser("selftest"); st_.add_argument("--n", type=int, default=160)
    a = ap.parse_args()
    if a.cmd == "selftest": sys.exit(do_selftest(a))
    if a.cmd == "mkknown": sys.exit(do_mkknown(a))
    if a.cmd == "run": sys.exit(do_run(a))
    if a.cmd == "replay": sys.exit(do_replay(a))
    ap.print_help(); sys.exit(2)

if __name__ == "__main__":
    main()
