"""Reference model of SoftHSM's externally visible state (DESIGN 2.7).

The model is advanced over the plan that was actually executed, using the observed
succeeded/failed outcome of each call; property oracles ask it what the statement
predicts *before* the update.  It is a plain value (copy.deepcopy-able).
"""
import copy
import p11const as K

OK = 0
RW = K.CKF_RW_SESSION
SER = K.CKF_SERIAL_SESSION

BOOL_POLICY = {
    K.CKA_TOKEN: "token", K.CKA_PRIVATE: "private", K.CKA_SENSITIVE: "sensitive", K.CKA_EXTRACTABLE: "extractable",
    K.CKA_MODIFIABLE: "modifiable", K.CKA_COPYABLE: "copyable", K.CKA_DESTROYABLE: "destroyable",
    K.CKA_TRUSTED: "trusted", K.CKA_WRAP_WITH_TRUSTED: "wwt",
}

def tget(tmpl, typ):
    v = None
    for e in tmpl or []:
        if e[0] == typ and e[1] == "x":
            v = bytes.fromhex(e[2])
    return v

def tbool(tmpl, typ, default=None):
    v = tget(tmpl, typ)
    if v is None or len(v) != 1:
        return default
    return v != b"\x00"

def tulong(tmpl, typ, default=None):
    v = tget(tmpl, typ)
    if v is None or len(v) != 8:
        return default
    return int.from_bytes(v, "little")

def ref_of_label(label):
    if not label:
        return None
    if label[0:1] in (b"o", b"T"):
        k = 1
        while k < len(label) and 48 <= label[k] <= 57:
            k += 1
        if k > 1:
            return ("O" if label[0:1] == b"o" else "T") + label[1:k].decode()
    return None


class Tok:
    def __init__(self, ref, label, so_pin):
        self.ref = ref; self.label = label; self.so_pin = so_pin; self.user_pin = None
        self.serial = None; self.gen = 0   # gen: number of (re)initialisations

class Sess:
    def __init__(self, ref, pid, tok, rw, handle):
        self.ref = ref; self.pid = pid; self.tok = tok; self.rw = rw; self.handle = handle
        self.active = None   # active operation family (C12)

class Obj:
    def __init__(self, ref):
        self.ref = ref; self.tok = None; self.token = False; self.private = True
        self.pid = None; self.sess = None     # creator (relevant for session objects)
        self.klass = None; self.ktype = None
        self.attrs = {}      # type -> bytes: values supplied by templates (or pinned after creation)
        self.alive = True
        self.sensitive = None; self.extractable = None; self.modifiable = True; self.copyable = True
        self.destroyable = True; self.trusted = False; self.wwt = False
        self.origin = "create"   # create|generate|unwrap|derive|copy(inherits)
        self.local = False; self.ever_nonsensitive = None; self.ever_extractable = None
        self.keygen = None
        self.secret = {}     # type -> bytes the harness knows (for C02/C06 monitors)
        self.born = None     # (tid, op) of creation
    def is_key(self):
        return self.klass in (K.CKO_SECRET_KEY, K.CKO_PRIVATE_KEY)

class ProcM:
    def __init__(self, pid):
        self.pid = pid; self.inited = False
        self.sessions = {}        # ref -> Sess
        self.login = {}           # tok ref -> None | 'U' | 'S'
        self.h2obj = {}           # object handle -> obj ref (bindings learned from returns)
        self.h2sess = {}          # session handle -> sess ref
        self.issued_obj = {}      # handle -> obj ref, every handle ever issued by this instance
        self.issued_sess = {}     # handle -> sess ref
        self.dead_obj_handles = set()
        self.dead_sess_handles = set()
        self.instance = 0


class World:
    def __init__(self):
        self.toks = {}      # ref -> Tok
        self.objs = {}      # ref -> Obj
        self.procs = {}     # pid -> ProcM

    def copy(self):
        return copy.deepcopy(self)

    def proc(self, pid):
        if pid not in self.procs:
            self.procs[pid] = ProcM(pid)
        return self.procs[pid]

    # ------------------------------------------------------------------ queries
    def sess(self, pid, ref):
        return self.proc(pid).sessions.get(ref) if isinstance(ref, str) else None

    def state_of(self, pid, sref):
        """expected CK_STATE of a live session"""
        s = self.sess(pid, sref)
        if s is None:
            return None
        lg = self.proc(pid).login.get(s.tok)
        if lg == "S":
            return K.CKS_RW_SO_FUNCTIONS
        if lg == "U":
            return K.CKS_RW_USER_FUNCTIONS if s.rw else K.CKS_RO_USER_FUNCTIONS
        return K.CKS_RW_PUBLIC_SESSION if s.rw else K.CKS_RO_PUBLIC_SESSION

    def user_logged_in(self, pid, tok):
        return self.proc(pid).login.get(tok) == "U"

    def sessions_on(self, pid, tok):
        return [s for s in self.proc(pid).sessions.values() if s.tok == tok]

    def visible(self, pid, sref, include_private=None):
        """objects a search through this session may return (model's answer)"""
        s = self.sess(pid, sref)
        if s is None:
            return []
        priv_ok = self.user_logged_in(pid, s.tok) if include_private is None else include_private
        out = []
        for o in self.objs.values():
            if not o.alive or o.tok != s.tok:
                continue
            if not o.token:
                if o.pid != pid or o.sess not in self.proc(pid).sessions:
                    continue
            if o.private and not priv_ok:
                continue
            out.append(o)
        return out

    def obj_live_in(self, pid, o):
        if not o.alive:
            return False
        if o.token:
            return True
        return o.pid == pid and o.sess in self.proc(pid).sessions

    # ------------------------------------------------------------------ updates
    def _kill_session_objects(self, pid, sref):
        for o in self.objs.values():
            if o.alive and not o.token and o.pid == pid and o.sess == sref:
                o.alive = False

    def _handles_die(self, P, pred):
        for h, oref in list(P.h2obj.items()):
            o = self.objs.get(oref)
            if o is None or pred(o):
                del P.h2obj[h]; P.dead_obj_handles.add(h)

    def _close_session(self, P, sref):
        s = P.sessions.pop(sref, None)
        if s is None:
            return
        P.h2sess.pop(s.handle, None); P.dead_sess_handles.add(s.handle)
        self._kill_session_objects(P.pid, sref)
        # handles of its session objects die
        self._handles_die(P, lambda o: (not o.token) and o.pid == P.pid and o.sess == sref)
        if not [x for x in P.sessions.values() if x.tok == s.tok]:
            # last session of the slot: logged out, every object handle of the slot dies
            P.login[s.tok] = None
            self._handles_die(P, lambda o: o.tok == s.tok)

    def _reset_proc(self, P):
        for sref in list(P.sessions):
            self._kill_session_objects(P.pid, sref)
        for o in self.objs.values():
            if o.alive and not o.token and o.pid == P.pid:
                o.alive = False
        P.sessions.clear(); P.login.clear(); P.h2obj.clear(); P.h2sess.clear()
        P.issued_obj.clear(); P.issued_sess.clear(); P.dead_obj_handles.clear(); P.dead_sess_handles.clear()
        P.instance += 1

    def new_obj_from_template(self, ref, tmpl, pid, sref, origin):
        s = self.sess(pid, sref)
        o = Obj(ref)
        o.tok = s.tok if s else None
        o.pid = pid; o.sess = sref; o.origin = origin
        self._apply_template(o, tmpl, creating=True)
        return o

    def _apply_template(self, o, tmpl, creating=False):
        for e in tmpl or []:
            if e[1] == "t":
                o.attrs[e[0]] = {x[0]: bytes.fromhex(x[2]) for x in e[2] if x[1] == "x"}
                continue
            if e[1] != "x":
                continue
            t = e[0]; v = bytes.fromhex(e[2])
            o.attrs[t] = v
            if t in BOOL_POLICY and len(v) == 1:
                setattr(o, BOOL_POLICY[t], v != b"\x00")
            elif t == K.CKA_CLASS and len(v) == 8:
                o.klass = int.from_bytes(v, "little")
            elif t == K.CKA_KEY_TYPE and len(v) == 8:
                o.ktype = int.from_bytes(v, "little")

    def bind_obj(self, pid, h, oref):
        P = self.proc(pid)
        P.h2obj[h] = oref; P.issued_obj[h] = oref; P.dead_obj_handles.discard(h)

    def apply(self, pid, op, ret):
        """advance the model over one executed op, given its recorded return"""
        P = self.proc(pid)
        f = op.get("f") or op.get("act")
        rv = ret.get("rv")
        ok = (rv == OK)
        if f in ("start", "restart", "C_Initialize"):
            if f == "restart" or ok:
                if f == "restart" or not P.inited:
                    self._reset_proc(P)
                P.inited = ok
            if ok and "scan" in ret:
                self._learn_scan(P, ret["scan"])
            return
        if f in ("stop", "C_Finalize", "kill"):
            if ok or f == "kill":
                self._reset_proc(P); P.inited = False
            return
        if f == "slots":
            if ok:
                self._learn_scan(P, ret)
            return
        if f == "rmtoken":
            t = op.get("token")
            if ret.get("done") and t in self.toks:
                del self.toks[t]
                for o in self.objs.values():
                    if o.tok == t: o.alive = False
            return
        if f == "C_InitToken":
            if ok:
                ref = op.get("out") or op.get("slot")
                label = (op.get("label", "") + " " * 32)[:32].encode()
                pin = bytes.fromhex(op["pin"])
                tref = ref_of_label(label) or ref
                if op.get("slot") == "FREE" or tref not in self.toks:
                    self.toks[tref] = Tok(tref, label, pin)
                else:
                    t = self.toks[tref]
                    t.label = label; t.user_pin = None; t.gen += 1
                    for o in self.objs.values():
                        if o.tok == tref and o.token:
                            o.alive = False
                    for PP in self.procs.values():
                        self._handles_die(PP, lambda o: o.tok == tref and o.token)
            return
        if f == "C_OpenSession":
            if ok and op.get("out"):
                tok = op.get("slot")
                s = Sess(op["out"], pid, tok, bool(op.get("flags", 0) & RW), ret.get("h"))
                P.sessions[op["out"]] = s
                P.h2sess[s.handle] = s.ref; P.issued_sess[s.handle] = s.ref; P.dead_sess_handles.discard(s.handle)
                P.login.setdefault(tok, None)
            return
        if f == "C_CloseSession":
            if ok and isinstance(op.get("s"), str):
                self._close_session(P, op["s"])
            return
        if f == "C_CloseAllSessions":
            if ok:
                tok = op.get("slot")
                for sref in [r for r, s in P.sessions.items() if s.tok == tok]:
                    self._close_session(P, sref)
                P.login[tok] = None
            return
        s = self.sess(pid, op.get("s")) if "s" in op else None
        if f == "C_Login":
            if ok and s is not None:
                u = op.get("user")
                if u == K.CKU_USER: P.login[s.tok] = "U"
                elif u == K.CKU_SO: P.login[s.tok] = "S"
            return
        if f == "C_Logout":
            if ok and s is not None:
                P.login[s.tok] = None
                # private objects' handles die; private session objects of this process are destroyed
                for o in self.objs.values():
                    if o.alive and o.private and not o.token and o.pid == pid and o.tok == s.tok:
                        o.alive = False
                self._handles_die(P, lambda o: o.tok == s.tok and o.private)
            return
        if f == "C_InitPIN":
            if ok and s is not None and s.tok in self.toks:
                self.toks[s.tok].user_pin = bytes.fromhex(op["pin"])
            return
        if f == "C_SetPIN":
            if ok and s is not None and s.tok in self.toks:
                if P.login.get(s.tok) == "S": self.toks[s.tok].so_pin = bytes.fromhex(op["new"])
                else: self.toks[s.tok].user_pin = bytes.fromhex(op["new"])
            return
        if f in ("C_CreateObject", "C_GenerateKey", "C_UnwrapKey", "C_DeriveKey"):
            if ok and op.get("out") and s is not None:
                origin = {"C_CreateObject": "create", "C_GenerateKey": "generate", "C_UnwrapKey": "unwrap", "C_DeriveKey": "derive"}[f]
                o = self.new_obj_from_template(op["out"], op.get("tmpl"), pid, s.ref, origin)
                self.objs[o.ref] = o
                self.bind_obj(pid, ret.get("h"), o.ref)
            return
        if f == "C_GenerateKeyPair":
            if ok and op.get("out") and s is not None:
                for ref, tm, h in ((op["out"][0], op.get("pub"), ret.get("h")), (op["out"][1], op.get("priv"), ret.get("h2"))):
                    o = self.new_obj_from_template(ref, tm, pid, s.ref, "generate")
                    self.objs[o.ref] = o; self.bind_obj(pid, h, o.ref)
            return
        if f == "C_CopyObject":
            src = self.objs.get(op.get("o")) if isinstance(op.get("o"), str) else None
            if ok and op.get("out") and s is not None and src is not None:
                o = copy.deepcopy(src); o.ref = op["out"]; o.pid = pid; o.sess = s.ref; o.tok = s.tok; o.alive = True
                self._apply_template(o, op.get("tmpl"))
                self.objs[o.ref] = o; self.bind_obj(pid, ret.get("h"), o.ref)
            return
        if f == "C_DestroyObject":
            o = self.objs.get(op.get("o")) if isinstance(op.get("o"), str) else None
            if ok and o is not None:
                o.alive = False
                for PP in self.procs.values():
                    self._handles_die(PP, lambda x: x is o)
            return
        if f == "C_SetAttributeValue":
            o = self.objs.get(op.get("o")) if isinstance(op.get("o"), str) else None
            if ok and o is not None:
                self._apply_template(o, op.get("tmpl"))
            return
        if f in ("find", "readout"):
            if ok:
                for e in ret.get("ids", []):
                    if e.get("ref") and e["ref"] in self.objs:
                        self.bind_obj(pid, e["h"], e["ref"])
                    elif "h" in e:
                        P.issued_obj.setdefault(e["h"], None)
            return

    def _learn_scan(self, P, scan):
        for sl in scan.get("slots", []):
            ref = sl.get("ref")
            if ref and ref in self.toks and sl.get("serial"):
                self.toks[ref].serial = sl["serial"]
