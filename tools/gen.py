"""Shared plan-generation helpers (model-guided: the generator advances a World with assumed outcomes)."""
import random
import p11const as K
from model import World, tget, tbool

RW = K.CKF_RW_SESSION | K.CKF_SERIAL_SESSION
RO = K.CKF_SERIAL_SESSION

class G:
    def __init__(self, seed, prop, profile="seq"):
        self.seed = seed; self.prop = prop; self.profile = profile
        self.r = random.Random(seed)
        self.w = World()
        self.ops = {}          # tid -> list of ops
        self.pid_of = {}       # tid -> pid
        self.n_obj = 0; self.n_sess = 0; self.n_tok = 0
        self.fake_h = 1000
        self.faults = []
        self.knobs = self.default_knobs()
        self.extra = {}
        self.first_pid = {}

    def default_knobs(self):
        r = self.r
        return {"readdir": r.choice(["creation", "reverse", "name", "shuffle"]),
                "stdio_buf": r.choice([512, 4096, 4096, 8192, 65536]),
                "proc_umask": r.choice(["022", "077", "000", "027"]),
                "short_io": r.random() < 0.2,
                "policy": "call", "switch_p": 0.2,
                "conf": {"objectstore.umask": r.choice(["0077", "0077", "0027", "0022", "0000"])}}

    def task(self, tid=0, pid=1):
        self.ops.setdefault(tid, []); self.pid_of[tid] = pid; self.first_pid[tid] = pid
        return tid

    def emit(self, op, tid=0, ok=True, ret=None):
        """append an op; advance the guiding model assuming the outcome `ok`"""
        self.ops.setdefault(tid, []); self.pid_of.setdefault(tid, 1)
        self.ops[tid].append(op)
        pid = op.get("pid", self.pid_of[tid])
        if "pid" in op: self.pid_of[tid] = op["pid"]
        rr = {"rv": 0 if ok else 1}
        if ok:
            self.fake_h += 1; rr["h"] = self.fake_h; self.fake_h += 1; rr["h2"] = self.fake_h
        if ret: rr.update(ret)
        self.w.apply(pid, op, rr)
        return op

    def new_sess(self):
        self.n_sess += 1; return "S%d" % self.n_sess
    def new_obj(self):
        self.n_obj += 1; return "O%d" % self.n_obj
    def new_tok(self):
        self.n_tok += 1; return "T%d" % self.n_tok

    def pin(self, lo=4, hi=12):
        n = self.r.randint(lo, hi)
        return bytes(self.r.choice(b"abcdefghijklmnopqrstuvwxyz0123456789") for _ in range(n))

    def plan(self, **kw):
        tasks = [{"pid": self.first_pid.get(t, 1), "ops": self.ops[t]} for t in sorted(self.ops)]
        p = {"v": 1, "property": self.prop, "seed": self.seed, "profile": self.profile, "knobs": self.knobs, "tasks": tasks, "faults": self.faults}
        p.update(self.extra); p.update(kw)
        return p

    # ------------------------------------------------------------------ common building blocks
    def setup_token(self, tid=0, user_pin=True, so_pin=None, upin=None, keep_session=False):
        """InitToken on the free slot, optionally initialise the user PIN.  Returns the token ref."""
        t = self.new_tok()
        so = so_pin or self.pin()
        self.emit({"f": "C_InitToken", "slot": "FREE", "pin": so.hex(), "label": t, "out": t, "rng": {"min": 32, "max": 32, "disk": True, "label": "mk"}}, tid)
        self.emit({"act": "slots"}, tid)
        if user_pin:
            s = self.new_sess()
            up = upin or self.pin()
            self.emit({"f": "C_OpenSession", "slot": t, "flags": RW, "out": s}, tid)
            self.emit({"f": "C_Login", "s": s, "user": K.CKU_SO, "pin": so.hex()}, tid)
            self.emit({"f": "C_InitPIN", "s": s, "pin": up.hex()}, tid)
            self.emit({"f": "C_Logout", "s": s}, tid)
            if not keep_session:
                self.emit({"f": "C_CloseSession", "s": s}, tid)
        return t

    def near_pin(self, pin):
        """a PIN close to, but different from, the given one"""
        r = self.r
        k = r.randrange(8)
        if k == 0 and len(pin) > 4: return pin[:-1]
        if k == 1: return pin + b"x"
        if k == 2:
            i = r.randrange(len(pin)); return pin[:i] + bytes([pin[i] ^ (1 << r.randrange(8))]) + pin[i + 1:]
        if k == 3: return pin[:1] + b"\x00" + pin[2:] if len(pin) > 2 and pin[1:2] != b"\x00" else pin + b"\x00"
        if k == 4: return pin.upper() if pin.upper() != pin else pin + b"A"
        if k == 5: return pin[::-1] if pin[::-1] != pin else pin + b"z"
        if k == 6: return pin + pin
        return bytes(r.randrange(256) for _ in range(max(4, len(pin))))


FS_ERRS = {"write": ["ENOSPC", "EIO", "EDQUOT"], "ftruncate": ["EIO", "EINTR"], "open": ["EACCES", "EMFILE", "ENOSPC", "EINTR"], "lock": ["ENOLCK", "EINTR"], "unlock": ["ENOLCK"], "read": ["EIO"],
           "remove": ["EACCES", "EBUSY", "EIO"], "fstat": ["EIO"], "opendir": ["EMFILE", "EACCES"], "lstat": ["EIO"], "readdir": ["EIO"], "mkdir": ["ENOSPC"], "rmdir": ["EBUSY"],
           "sync": ["EIO"], "access": ["EIO"]}      # the last two exist only below SQLite (VFS seam)

def place_faults(plan, z, seed, per_op=1):
    """two-pass fault placement (DESIGN 2.5): run the plan once without faults to learn how many file operations of each kind every candidate call
    performs, then attach faults to (call, kind, ordinal) positions drawn over the call's WHOLE I/O sequence (biased to its first and last operations)."""
    import random, copy
    cands = plan.get("fault_candidates")
    if not cands or plan.get("faults"):
        return plan
    r = random.Random(seed ^ 0xFA17)
    p1 = copy.deepcopy(plan); p1["faults"] = []
    res = z.run(p1)
    fsn = {}; wmax = {}
    for e in res.hist:
        if e.get("e") == "ret" and "cs" not in e and e.get("t") == 0 and "fsn" in e:
            fsn[e["op"]] = e["fsn"]
            if "wmax" in e: wmax[e["op"]] = e["wmax"]
    plan = copy.deepcopy(plan); plan["faults"] = []
    for k in cands:
        counts = {kind: n for kind, n in fsn.get(k, {}).items() if kind in FS_ERRS and n > 0}
        if not counts: continue
        for _ in range(per_op):
            wm = wmax.get(k)
            if wm and wm[1] > 600 and r.random() < (0.6 if wm[1] >= plan.get("knobs", {}).get("stdio_buf", 4096) else 0.3):
                # the call's LARGEST write request (a big attribute value that bypasses the stdio buffer): cut it short, with or without an error,
                # while everything after it succeeds - a transient failure in the middle of one value
                plan["faults"].append({"tid": 0, "op": k, "fs": "write", "nth": wm[0], "err": r.choice(["ENOSPC", "EIO", "SHORT"]), "partial": r.choice([9, 100, 512, max(1, wm[1] // 2), wm[1] - 1])})
                continue
            kinds = list(counts)
            # writes / truncates / removes are where persistence is decided: weight them up
            wts = [4 if kk in ("write", "ftruncate", "remove") else 2 if kk in ("open", "lock", "unlock") else 1 for kk in kinds]
            kind = r.choices(kinds, wts)[0]; n = counts[kind]
            x = r.random()
            nth = n - 1 if x < 0.3 else 0 if x < 0.45 else max(n - 2, 0) if x < 0.55 else r.randrange(n)
            plan["faults"].append({"tid": 0, "op": k, "fs": kind, "nth": nth, "err": r.choice(FS_ERRS[kind]), "partial": r.choice([0, 0, 9, 100])})
    return plan
