#!/bin/sh
# usage: tools/mkagent.sh <ID> <PROP> [hint...]  -- prepare a scratch worktree (/tmp/wt-<ID>) and output dir (/tmp/out-<ID>) for a seeded-change sub-agent; prints the prompt
ID="$1"; PROP="$2"; shift 2; HINT="$*"
git -C /repo worktree add --detach /tmp/wt-$ID HEAD >/dev/null 2>&1 || { echo "worktree failed" >&2; exit 3; }
mkdir -p /tmp/out-$ID/demo
python3 - "$PROP" > /tmp/out-$ID/PROPERTY.txt <<'PY'
import json,sys
for l in open('/verif/properties.jsonl'):
    d=json.loads(l)
    if d['id']==sys.argv[1]:
        print(d['title']); print(); print(d['statement']); print(); print('Quantified over: '+d['quantifier']['text'])
PY
sed "s/@ID@/$ID/g" /verif/seeded/AGENT_PROMPT.txt
[ -n "$HINT" ] && echo && echo "Hint (so that your change differs from ones other people already made): $HINT"
