"""Mechanism parameter builders (x86-64 layout: every field 8 bytes unless noted)."""
import p11const as K

def u64(v): return int(v).to_bytes(8, "little")

def simple(m, param=b""):
    return {"m": m, "p": param.hex()}

def kdsd(m, data):
    # CK_KEY_DERIVATION_STRING_DATA { pData, ulLen }
    return {"m": m, "p": (u64(0) + u64(len(data))).hex(), "ptrs": [[0, data.hex()]]}

def aes_cbc_encrypt_data(iv, data):
    # CK_AES_CBC_ENCRYPT_DATA_PARAMS { iv[16], pData, length }
    return {"m": K.CKM_AES_CBC_ENCRYPT_DATA, "p": (iv + u64(0) + u64(len(data))).hex(), "ptrs": [[16, data.hex()]]}

def des_cbc_encrypt_data(m, iv, data):
    return {"m": m, "p": (iv + u64(0) + u64(len(data))).hex(), "ptrs": [[8, data.hex()]]}

def concat_key(ref):
    return {"m": K.CKM_CONCATENATE_BASE_AND_KEY, "p": u64(0).hex(), "href": [[0, ref]]}

def ecdh1(pub_point):
    # CK_ECDH1_DERIVE_PARAMS { kdf, ulSharedDataLen, pSharedData, ulPublicDataLen, pPublicData }
    return {"m": K.CKM_ECDH1_DERIVE, "p": (u64(K.CKD_NULL) + u64(0) + u64(0) + u64(len(pub_point)) + u64(0)).hex(), "ptrs": [[32, pub_point.hex()]]}

def gcm(iv, aad, tagbits):
    # CK_GCM_PARAMS { pIv, ulIvLen, ulIvBits, pAAD, ulAADLen, ulTagBits }
    return {"m": K.CKM_AES_GCM, "p": (u64(0) + u64(len(iv)) + u64(len(iv) * 8) + u64(0) + u64(len(aad)) + u64(tagbits)).hex(), "ptrs": [[0, iv.hex()], [24, aad.hex()]]}

def ctr(bits, cb):
    return {"m": K.CKM_AES_CTR, "p": (u64(bits) + cb).hex()}

def oaep(hashalg=None, mgf=None):
    # CK_RSA_PKCS_OAEP_PARAMS { hashAlg, mgf, source, pSourceData, ulSourceDataLen }
    return {"m": K.CKM_RSA_PKCS_OAEP, "p": (u64(hashalg or K.CKM_SHA_1) + u64(mgf or K.CKG_MGF1_SHA1) + u64(K.CKZ_DATA_SPECIFIED) + u64(0) + u64(0)).hex()}

def pss(m, hashalg, mgf, slen):
    return {"m": m, "p": (u64(hashalg) + u64(mgf) + u64(slen)).hex()}

# mechanism usable with a key kind for each operation family (first choice)
def for_kind(kind, fam, r):
    """returns a mechanism dict or None"""
    if kind == "aes":
        if fam in ("enc", "dec"): return r.choice([simple(K.CKM_AES_ECB), simple(K.CKM_AES_CBC, bytes(16)), simple(K.CKM_AES_CBC_PAD, bytes(16))])
        if fam in ("sign", "verify"): return simple(K.CKM_AES_CMAC)
        if fam in ("wrap", "unwrap"): return simple(K.CKM_AES_KEY_WRAP)
    if kind == "des3":
        if fam in ("enc", "dec"): return r.choice([simple(K.CKM_DES3_ECB), simple(K.CKM_DES3_CBC, bytes(8))])
        if fam in ("sign", "verify"): return simple(K.CKM_DES3_CMAC)
    if kind == "generic":
        if fam in ("sign", "verify"): return r.choice([simple(K.CKM_SHA256_HMAC), simple(K.CKM_SHA_1_HMAC)])
    if kind == "rsa_priv":
        if fam == "sign": return r.choice([simple(K.CKM_RSA_PKCS), simple(K.CKM_SHA256_RSA_PKCS)])
        if fam == "dec": return simple(K.CKM_RSA_PKCS)
        if fam == "unwrap": return simple(K.CKM_RSA_PKCS)
    if kind == "rsa_pub":
        if fam == "verify": return r.choice([simple(K.CKM_RSA_PKCS), simple(K.CKM_SHA256_RSA_PKCS)])
        if fam == "enc": return simple(K.CKM_RSA_PKCS)
        if fam == "wrap": return simple(K.CKM_RSA_PKCS)
    if kind == "ec_priv":
        if fam == "sign": return simple(K.CKM_ECDSA)
    if kind == "ec_pub":
        if fam == "verify": return simple(K.CKM_ECDSA)
    return None
