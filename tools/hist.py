"""History helpers: pair each executed op with its return record."""

def walk(plan, r, cs=None):
    """yield (tid, opidx, op, ret) in the global order in which the calls returned.
    cs=None: the main run; cs=k: the recovery ops of crash state k."""
    tasks = plan["tasks"]
    rec = (plan.get("crash") or {}).get("recover", [])
    for e in r.hist:
        if e.get("e") != "ret":
            continue
        if cs is None:
            if "cs" in e:
                continue
            t = e["t"]; k = e["op"]
            if t < 0 or t >= len(tasks) or k >= len(tasks[t]["ops"]):
                continue
            yield t, k, tasks[t]["ops"][k], e
        else:
            if e.get("cs") != cs:
                continue
            k = e["op"] - 100000
            if 0 <= k < len(rec):
                yield e["t"], k, rec[k], e

def pid_track(plan):
    """pid each task acts as at each op index (ops may switch with 'pid')"""
    out = {}
    for t, task in enumerate(plan["tasks"]):
        pid = task.get("pid", 1); lst = []
        for op in task["ops"]:
            if "pid" in op: pid = op["pid"]
            lst.append(pid)
        out[t] = lst
    return out

def mons(r, kind=None):
    return [e for e in r.hist if e.get("e") == "mon" and (kind is None or e.get("k") == kind)]

def opname(op):
    return op.get("f") or ("@" + op.get("act", "?"))
