#!/usr/bin/env python3
"""Write a golden fixture: a token directory produced by the PINNED build (run with VERIF_REPO/VERIF_BUILD pointing at a
worktree of the pinned commit), with the PINs and every attribute value the API returned.
   VERIF_REPO=<pinned worktree> VERIF_BUILD=<scratch build dir> python3 tools/mkfixture.py <seed> <out.json>"""
import sys, os, json
sys.path.insert(0, os.path.dirname(os.path.abspath(__file__)))
import p11const as K
from store import StoreW, PIN_TYPES
import simdrv, hist
from gen import RW

def main():
    seed = int(sys.argv[1]); out = sys.argv[2]
    db = len(sys.argv) > 3 and sys.argv[3] == "db"        # the SQLite object store of the pinned build (on the simulated disk)
    g = StoreW(seed, "C05", ntok=2, big=(seed % 2 == 0))
    g.knobs["short_io"] = False
    if db: g.knobs["conf"]["objectstore.backend"] = "db"
    r = g.r
    g.begin()
    for t in g.toks():
        g.s_open(tok=t, rw=True); g.s_login(user=K.CKU_USER, tok=t)
    for kind in ["data", "cert", "aes", "generic", "des3", "rsa_pub", "rsa_priv", "ec_pub", "ec_priv", "data", "aes"]:
        for tries in range(4):
            before = len(g.ops[0])
            g.s_create(kind=kind, token=True, private=r.random() < 0.5)
            # the pinned build cannot read back dates of private objects (defect F-DATE-PLAIN): keep them out of the fixtures
            op = [o for o in g.ops[0][before:] if o.get("f") == "C_CreateObject"]
            if op and any(e[0] in (K.CKA_START_DATE, K.CKA_END_DATE) for e in op[0]["tmpl"]) and any(e[0] == K.CKA_PRIVATE and e[2] == "01" for e in op[0]["tmpl"]):
                ref = op[0]["out"]; del g.ops[0][before:]; g.w.objs.pop(ref, None); continue
            break
    g.s_gen(); g.s_gen(); g.s_genpair(); g.s_unwrap(); g.s_derive()
    if not db: g.s_copy()      # the pinned SQLite store copies CKA_CLASS only (defect repaired by ba31772): nothing worth recording
    g.s_setattr(); g.s_setattr(); g.s_destroy()
    g.emit({"act": "restart"})
    sess = {}
    for t in g.toks():
        s = g.new_sess(); sess[t] = s
        g.emit({"f": "C_OpenSession", "slot": t, "flags": RW, "out": s})
        g.emit({"f": "C_Login", "s": s, "user": K.CKU_USER, "pin": g.w.toks[t].user_pin.hex()})
        g.emit({"act": "readout", "s": s, "tmpl": [], "types": PIN_TYPES, "fixture": t})
    g.emit({"act": "disk", "data": True})
    plan = g.plan()
    z = simdrv.Zygote()
    res = z.run(plan)
    assert not res.died, res.why()
    fx = {"seed": seed, "tokens": [], "files": {}}
    if db: fx["backend"] = "db"
    for tid, k, op, ret in hist.walk(plan, res):
        if op.get("act") == "readout" and op.get("fixture"):
            t = op["fixture"]; objs_ = {}
            for e, oj in zip(ret["ids"], ret["objs"]):
                assert e.get("ref"), e
                # a date the pinned build stored unreadably is not a recorded value
                objs_[e["ref"]] = {ts: rec for ts, rec in oj["attrs"].items() if ("v" in rec or "t" in rec)}
                if db:
                    # the pinned SQLite store cannot read these two back (defect repaired by 0b8c58d): what it answered is not a recorded value
                    for ts in (str(K.CKA_DESTROYABLE), str(K.C.get("CKA_PUBLIC_KEY_INFO", 0x129))): objs_[e["ref"]].pop(ts, None)
            fx["tokens"].append({"ref": t, "so_pin": g.w.toks[t].so_pin.hex(), "user_pin": g.w.toks[t].user_pin.hex(), "objects": objs_})
        if op.get("act") == "disk":
            for path, ent in ret["tree"].items():
                if path.startswith("/sim/tokens"): fx["files"][path] = ent
    json.dump(fx, open(out, "w"))
    print(out, {t["ref"]: len(t["objects"]) for t in fx["tokens"]}, len(fx["files"]), "files")
main()
