"""Store workload (rich attribute kinds, every storing path) and the attribute-store oracle shared by C05, C06, C09, C16."""
import p11const as K
from p11const import A_bool, A_ulong, A_bytes, A_mechs
from workload import OW
from gen import RW, RO
from model import World, tget, tbool, ref_of_label
import objs, mechs, decoder

TEMPLATE_ATTRS = (K.CKA_WRAP_TEMPLATE, K.CKA_UNWRAP_TEMPLATE, K.CKA_DERIVE_TEMPLATE)
MECH_ATTRS = (K.CKA_ALLOWED_MECHANISMS,)
BOOLS = {K.CKA_TOKEN, K.CKA_PRIVATE, K.CKA_SENSITIVE, K.CKA_EXTRACTABLE, K.CKA_ENCRYPT, K.CKA_DECRYPT, K.CKA_SIGN, K.CKA_VERIFY, K.CKA_WRAP, K.CKA_UNWRAP, K.CKA_DERIVE,
         K.CKA_MODIFIABLE, K.CKA_COPYABLE, K.CKA_DESTROYABLE, K.CKA_TRUSTED, K.CKA_WRAP_WITH_TRUSTED, K.CKA_LOCAL, K.CKA_ALWAYS_SENSITIVE, K.CKA_NEVER_EXTRACTABLE, K.CKA_ALWAYS_AUTHENTICATE}
# attributes read back after creation and pinned (DESIGN 2.7 learn-then-pin)
PIN_TYPES = [K.CKA_CLASS, K.CKA_KEY_TYPE, K.CKA_TOKEN, K.CKA_PRIVATE, K.CKA_LABEL, K.CKA_ID, K.CKA_VALUE, K.CKA_APPLICATION, K.CKA_OBJECT_ID, K.CKA_SUBJECT, K.CKA_ISSUER, K.CKA_SERIAL_NUMBER,
             K.CKA_START_DATE, K.CKA_END_DATE, K.CKA_ALLOWED_MECHANISMS, K.CKA_WRAP_TEMPLATE, K.CKA_UNWRAP_TEMPLATE,
             K.CKA_SENSITIVE, K.CKA_EXTRACTABLE, K.CKA_MODIFIABLE, K.CKA_COPYABLE, K.CKA_DESTROYABLE, K.CKA_LOCAL, K.CKA_ALWAYS_SENSITIVE, K.CKA_NEVER_EXTRACTABLE, K.CKA_KEY_GEN_MECHANISM,
             K.CKA_ENCRYPT, K.CKA_DECRYPT, K.CKA_SIGN, K.CKA_VERIFY, K.CKA_WRAP, K.CKA_UNWRAP, K.CKA_DERIVE, K.CKA_VALUE_LEN, K.CKA_MODULUS, K.CKA_PUBLIC_EXPONENT, K.CKA_PRIVATE_EXPONENT,
             K.CKA_EC_PARAMS, K.CKA_EC_POINT, K.CKA_CERTIFICATE_TYPE, K.CKA_CHECK_VALUE, K.CKA_TRUSTED, K.CKA_WRAP_WITH_TRUSTED]

def date(r):
    return ("%04d%02d%02d" % (r.randint(1990, 2099), r.randint(1, 12), r.randint(1, 28))).encode()

class StoreW(OW):
    def __init__(self, seed, prop, profile="seq", ntok=None, big=False):
        super().__init__(seed, prop, profile, ntok)
        self.big = big
        self.readtypes = PIN_TYPES

    def vlen(self):
        r = self.r
        x = r.random()
        if self.big and x < getattr(self, "big_p", 0.15): return r.choice(getattr(self, "big_sizes", [70000, 131072, 200000, 300000]))
        if x < 0.45: return r.choice([0, 1, 12, 15, 16, 17, 24, 40])
        if x < 0.8: return r.choice([100, 255, 256, 511, 512, 513, 1000])
        return r.choice([4095, 4096, 4097, 8191, 8192, 8193, 20000])

    def extras(self, kind):
        r = self.r; ex = []
        if kind in ("aes", "generic", "des3", "rsa_pub", "rsa_priv", "ec_pub", "ec_priv"):
            if r.random() < 0.4: ex.append(A_bytes(K.CKA_START_DATE, date(r)))
            if r.random() < 0.3: ex.append(A_bytes(K.CKA_END_DATE, date(r)))
            if r.random() < 0.4:
                ex.append(A_mechs(K.CKA_ALLOWED_MECHANISMS, r.sample([K.CKM_AES_ECB, K.CKM_AES_CBC, K.CKM_AES_CBC_PAD, K.CKM_AES_CMAC, K.CKM_SHA256_HMAC, K.CKM_SHA_1_HMAC, K.CKM_RSA_PKCS, K.CKM_SHA256_RSA_PKCS, K.CKM_ECDSA, K.CKM_ECDH1_DERIVE, K.CKM_AES_KEY_WRAP,
                                                                      K.CKM_AES_ECB_ENCRYPT_DATA, K.CKM_CONCATENATE_BASE_AND_DATA, K.CKM_CONCATENATE_DATA_AND_BASE, K.CKM_CONCATENATE_BASE_AND_KEY, K.CKM_DES3_ECB, K.CKM_DES3_CBC, K.CKM_DES3_CMAC], r.randint(8, 18))))
        def tmpl_entries():
            # any subset of a pool with every stored kind (boolean, unsigned long, byte string incl. empty and long ones) in every position: entries are
            # stored sorted by type, so WHICH kind comes last (and ends exactly at the end of the nested map) varies
            pool = [A_bool(K.CKA_EXTRACTABLE, r.random() < 0.5), A_bool(K.CKA_SENSITIVE, r.random() < 0.5), A_bool(K.CKA_ENCRYPT, True), A_ulong(K.CKA_KEY_TYPE, r.choice([K.CKK_AES, K.CKK_GENERIC_SECRET])), A_ulong(K.CKA_VALUE_LEN, r.choice([16, 32])),
                    A_ulong(K.CKA_CLASS, K.CKO_SECRET_KEY), A_bytes(K.CKA_LABEL, objs.rnd(r, r.choice([0, 1, 3, 20, 300]))), A_bytes(K.CKA_ID, objs.rnd(r, r.choice([0, 6, 64]))), A_bytes(K.CKA_START_DATE, date(r)),
                    A_bytes(K.CKA_EC_PARAMS, bytes.fromhex(objs.POOL["ec"][0]["params"])), A_bytes(0x80000011, objs.rnd(r, r.choice([1, 8, 100])))]
            return r.sample(pool, r.randint(1, 5))
        pt = getattr(self, "template_p", 0.3)
        if kind in ("aes", "generic", "des3", "rsa_pub") and r.random() < pt:
            ex.append([K.CKA_WRAP_TEMPLATE, "t", tmpl_entries()])
        if kind in ("aes", "generic", "des3", "rsa_priv") and r.random() < pt:
            ex.append([K.CKA_UNWRAP_TEMPLATE, "t", tmpl_entries()])
        if kind == "cert":
            if r.random() < 0.5: ex.append(A_bytes(K.CKA_ISSUER, b"\x30\x09" + objs.rnd(r, 9)))
            if r.random() < 0.5: ex.append(A_bytes(K.CKA_SERIAL_NUMBER, b"\x02\x04" + objs.rnd(r, 4)))
            if r.random() < 0.3: ex.append(A_bytes(K.CKA_START_DATE, date(r)))
        return ex

    def after_create(self, tid, pid, s, ref):
        """learn-then-pin: read the attribute superset of the new object"""
        self.emit({"act": "readattrs", "s": s, "o": ref, "types": self.readtypes, "pin": True}, tid)

    def s_create(self, tid=0, pid=1, **kw):
        r = self.r
        kind = kw.pop("kind", None) or r.choice(self.kinds)
        if kind in ("data", "cert") and "vlen" not in kw: kw["vlen"] = self.vlen()
        ex = self.extras(kind)
        if kind in ("aes", "generic") and r.random() < 0.3:
            fl_ = dict(kw.get("flags") or {}); fl_["kcv"] = True; kw["flags"] = fl_
        if r.random() < 0.15: ex.append(A_bool(K.CKA_MODIFIABLE, r.random() < 0.5))
        ref = super().s_create(tid, pid, kind=kind, extra=ex, **kw)
        if ref and ref in self.w.objs:
            self.after_create(tid, pid, self.ops[tid][-1]["s"], ref)
        return ref

    def usable(self, pid, kinds, need=None, same_tok=None):
        out = []
        for o in self.live_objs(pid):
            if o.ref not in self.info or self.info[o.ref]["kind"] not in kinds: continue
            if same_tok and o.tok != same_tok: continue
            if o.ref not in self.P(pid).h2obj.values(): continue
            if o.private and self.P(pid).login.get(o.tok) != "U": continue
            out.append(o)
        return out

    def new_key_tmpl(self, ref, token, private, ktype=None, vlen=None, sensitive=False, extractable=True):
        r = self.r
        t = [A_bool(K.CKA_TOKEN, token), A_bool(K.CKA_PRIVATE, private), A_bytes(K.CKA_LABEL, objs.label(ref)), A_bytes(K.CKA_ID, objs.rnd(r, 4)),
             A_bool(K.CKA_SENSITIVE, sensitive), A_bool(K.CKA_EXTRACTABLE, extractable), A_bool(K.CKA_ENCRYPT, True), A_bool(K.CKA_DECRYPT, True),
             A_bool(K.CKA_SIGN, True), A_bool(K.CKA_VERIFY, True), A_bool(K.CKA_WRAP, True), A_bool(K.CKA_UNWRAP, True), A_bool(K.CKA_DERIVE, True)]
        if ktype is not None: t += [A_ulong(K.CKA_CLASS, K.CKO_SECRET_KEY), A_ulong(K.CKA_KEY_TYPE, ktype)]
        if vlen is not None: t.append(A_ulong(K.CKA_VALUE_LEN, vlen))
        r.shuffle(t)
        return t

    def pick_sess_for_new(self, pid, token, private, tok=None):
        c = [s for s in self.live_sessions(pid, tok) if self.can_create(pid, s, token, private)]
        return self.r.choice(c) if c else None

    def s_gen(self, tid=0, pid=1):
        r = self.r
        if len(self.live_objs(pid)) >= self.max_objs: return False
        token = (r.random() < 0.6) or getattr(self, 'force_token', False); private = r.random() < 0.5
        s = self.pick_sess_for_new(pid, token, private)
        if not s: return False
        ref = self.new_obj()
        which = r.choice(["aes", "aes", "generic", "des3"])
        if which == "aes": m = mechs.simple(K.CKM_AES_KEY_GEN); t = self.new_key_tmpl(ref, token, private, vlen=r.choice([16, 24, 32]))
        elif which == "generic": m = mechs.simple(K.CKM_GENERIC_SECRET_KEY_GEN); t = self.new_key_tmpl(ref, token, private, vlen=r.choice([16, 20, 64]))
        else: m = mechs.simple(K.CKM_DES3_KEY_GEN); t = self.new_key_tmpl(ref, token, private)
        self.emit({"f": "C_GenerateKey", "s": s.ref, "mech": m, "tmpl": t, "out": ref, "rng": {"min": 16, "max": 64}}, tid)
        self.info[ref] = {"kind": which, "secret": {}}
        self.after_create(tid, pid, s.ref, ref)
        return ref

    def s_genpair(self, tid=0, pid=1):
        r = self.r
        if len(self.live_objs(pid)) >= self.max_objs - 1: return False
        token = (r.random() < 0.6) or getattr(self, 'force_token', False); private = r.random() < 0.5
        s = self.pick_sess_for_new(pid, token, private)
        if not s: return False
        n1 = self.new_obj(); n2 = self.new_obj()
        pub = [A_bool(K.CKA_TOKEN, token), A_bool(K.CKA_PRIVATE, False), A_bytes(K.CKA_LABEL, objs.label(n1)), A_bytes(K.CKA_EC_PARAMS, bytes.fromhex(objs.POOL["ec"][0]["params"])), A_bool(K.CKA_VERIFY, True), A_bytes(K.CKA_ID, objs.rnd(r, 3))]
        prv = [A_bool(K.CKA_TOKEN, token), A_bool(K.CKA_PRIVATE, private), A_bytes(K.CKA_LABEL, objs.label(n2)), A_bool(K.CKA_SIGN, True), A_bool(K.CKA_SENSITIVE, False), A_bool(K.CKA_EXTRACTABLE, True), A_bool(K.CKA_DERIVE, True), A_bytes(K.CKA_ID, objs.rnd(r, 3))]
        self.emit({"f": "C_GenerateKeyPair", "s": s.ref, "mech": mechs.simple(K.CKM_EC_KEY_PAIR_GEN), "pub": pub, "priv": prv, "out": [n1, n2]}, tid)
        self.info[n1] = {"kind": "ec_pub", "secret": {}}; self.info[n2] = {"kind": "ec_priv", "secret": {}}
        self.after_create(tid, pid, s.ref, n1); self.after_create(tid, pid, s.ref, n2)
        return n2

    def s_unwrap(self, tid=0, pid=1):
        r = self.r
        if len(self.live_objs(pid)) >= self.max_objs: return False
        token = (r.random() < 0.6) or getattr(self, 'force_token', False); private = r.random() < 0.5
        s = self.pick_sess_for_new(pid, token, private)
        if not s: return False
        wks = self.usable(pid, ["aes"], same_tok=s.tok)
        keys = [o for o in self.usable(pid, ["aes", "generic"], same_tok=s.tok) if o.extractable is not False and not o.sensitive]
        if not wks or not keys: return False
        wk = r.choice(wks); k = r.choice(keys)
        pkeys = [o for o in self.usable(pid, ["rsa_priv", "ec_priv"], same_tok=s.tok) if o.extractable is True and not o.sensitive]
        if pkeys and r.random() < 0.4:
            return self.s_unwrap_private(tid, pid, s, wk, r.choice(pkeys), token, private)
        if getattr(self, "private_follows_source", False) and k.private and not private:
            private = True
            if not self.can_create(pid, s, token, private): return False
        name = "w%d" % len(self.ops[tid])
        m = r.choice([mechs.simple(K.CKM_AES_KEY_WRAP), mechs.simple(K.CKM_AES_KEY_WRAP_PAD), mechs.simple(K.CKM_AES_CBC_PAD, bytes(16))])
        self.emit({"f": "C_WrapKey", "s": s.ref, "mech": m, "wkey": wk.ref, "key": k.ref, "outcap": 256, "save": name}, tid)
        ref = self.new_obj()
        kt = K.CKK_AES if self.info[k.ref]["kind"] == "aes" else K.CKK_GENERIC_SECRET
        t = self.new_key_tmpl(ref, token, private, ktype=kt)
        self.emit({"f": "C_UnwrapKey", "s": s.ref, "mech": m, "ukey": wk.ref, "in": {"from": name}, "tmpl": t, "out": ref}, tid)
        self.info[ref] = {"kind": self.info[k.ref]["kind"], "secret": {}}
        self.after_create(tid, pid, s.ref, ref)
        return ref

    def s_unwrap_private(self, tid, pid, s, wk, k, token, private):
        """wrap an extractable private key (PKCS#8 under AES) and unwrap it as a new private key; CKA_SENSITIVE / CKA_EXTRACTABLE are sometimes left to
        their defaults (the history attributes of an unwrapped key must not depend on that)"""
        r = self.r
        if getattr(self, "private_follows_source", False) and k.private and not private:
            private = True
            if not self.can_create(pid, s, token, private): return False
        name = "w%d" % len(self.ops[tid])
        m = r.choice([mechs.simple(K.CKM_AES_KEY_WRAP_PAD), mechs.simple(K.CKM_AES_CBC_PAD, bytes(16))])
        self.emit({"f": "C_WrapKey", "s": s.ref, "mech": m, "wkey": wk.ref, "key": k.ref, "outcap": 4096, "save": name}, tid)
        ref = self.new_obj(); kind = self.info[k.ref]["kind"]
        t = [A_ulong(K.CKA_CLASS, K.CKO_PRIVATE_KEY), A_ulong(K.CKA_KEY_TYPE, K.CKK_RSA if kind == "rsa_priv" else K.CKK_EC), A_bool(K.CKA_TOKEN, token), A_bool(K.CKA_PRIVATE, private),
             A_bytes(K.CKA_LABEL, objs.label(ref)), A_bytes(K.CKA_ID, objs.rnd(r, 4)), A_bool(K.CKA_SIGN, True)]
        if r.random() < 0.6: t.append(A_bool(K.CKA_SENSITIVE, r.random() < 0.5))
        if r.random() < 0.6: t.append(A_bool(K.CKA_EXTRACTABLE, r.random() < 0.5))
        r.shuffle(t)
        self.emit({"f": "C_UnwrapKey", "s": s.ref, "mech": m, "ukey": wk.ref, "in": {"from": name}, "tmpl": t, "out": ref}, tid)
        self.info[ref] = {"kind": kind, "secret": {}}
        self.after_create(tid, pid, s.ref, ref)
        return ref

    def s_derive(self, tid=0, pid=1):
        r = self.r
        if len(self.live_objs(pid)) >= self.max_objs: return False
        token = (r.random() < 0.6) or getattr(self, 'force_token', False); private = r.random() < 0.5
        s = self.pick_sess_for_new(pid, token, private)
        if not s: return False
        bases = self.usable(pid, ["aes", "generic", "ec_priv"], same_tok=s.tok)
        if not bases: return False
        b = r.choice(bases); kind = self.info[b.ref]["kind"]
        if getattr(self, "private_follows_source", False) and b.private and not private:
            private = True
            if not self.can_create(pid, s, token, private): return False
        ref = self.new_obj()
        if kind == "aes":
            m = r.choice([mechs.kdsd(K.CKM_AES_ECB_ENCRYPT_DATA, objs.rnd(r, 32)), mechs.aes_cbc_encrypt_data(objs.rnd(r, 16), objs.rnd(r, 32)), mechs.kdsd(K.CKM_CONCATENATE_BASE_AND_DATA, objs.rnd(r, 8))])
        elif kind == "generic":
            m = r.choice([mechs.kdsd(K.CKM_CONCATENATE_BASE_AND_DATA, objs.rnd(r, 8)), mechs.kdsd(K.CKM_CONCATENATE_DATA_AND_BASE, objs.rnd(r, 8))])
        else:
            m = mechs.ecdh1(bytes.fromhex(objs.POOL["ec"][r.randrange(3)]["q"]))
        t = self.new_key_tmpl(ref, token, private, ktype=K.CKK_GENERIC_SECRET, vlen=r.choice([None, 16]))
        self.emit({"f": "C_DeriveKey", "s": s.ref, "mech": m, "base": b.ref, "tmpl": t, "out": ref}, tid)
        self.info[ref] = {"kind": "generic", "secret": {}}
        self.after_create(tid, pid, s.ref, ref)
        return ref

    def s_copy(self, tid=0, pid=1, obj=None):
        ref = super().s_copy(tid, pid, obj)
        if ref and ref in self.w.objs:
            self.after_create(tid, pid, self.ops[tid][-1]["s"], ref)
        return ref

    def s_setattr(self, tid=0, pid=1, obj=None):
        r = self.r
        live = self.live_sessions(pid); lo = self.live_objs(pid)
        if not live or not lo: return False
        o = obj or r.choice(lo)
        ss = [x for x in live if x.tok == o.tok]
        if not ss: return False
        s = r.choice(ss)
        kind = self.info.get(o.ref, {}).get("kind", "data")
        choices = [A_bytes(K.CKA_LABEL, objs.label(o.ref, ":" + "".join(r.choice("abcdefgh") for _ in range(r.randint(1, 30)))))]
        if kind != "data": choices.append(A_bytes(K.CKA_ID, objs.rnd(r, r.choice([0, 1, 8, 40]))))
        if kind == "data": choices.append(A_bytes(K.CKA_APPLICATION, objs.rnd(r, r.choice([0, 5, 50])))); choices.append(A_bytes(K.CKA_VALUE, objs.rnd(r, self.vlen())))
        if kind in ("aes", "generic") and self.info.get(o.ref, {}).get("secret", {}).get(K.CKA_VALUE):
            cv = decoder.kcv(kind, self.info[o.ref]["secret"][K.CKA_VALUE])
            if cv: choices.append(A_bytes(K.CKA_CHECK_VALUE, cv))       # writing back the correct check value
        if kind in ("aes", "generic", "des3", "rsa_priv", "ec_priv", "rsa_pub", "ec_pub"):
            choices.append(A_bytes(K.CKA_START_DATE, date(r)))
            choices.append(A_bool(K.CKA_DERIVE, r.random() < 0.5))
        if kind == "cert": choices.append(A_bytes(K.CKA_ISSUER, b"\x30\x05" + objs.rnd(r, 5)))
        tm = r.sample(choices, r.randint(1, min(3, len(choices))))
        self.emit({"f": "C_SetAttributeValue", "s": s.ref, "o": o.ref, "tmpl": tm}, tid, ok=self.can_write(pid, s, o) and o.modifiable)
        return True

    def s_readout(self, tid=0, pid=1, tok=None):
        """user session read-out of everything visible"""
        live = self.live_sessions(pid, tok)
        if not live: return False
        s = self.r.choice(live)
        self.emit({"act": "readout", "s": s.ref, "tmpl": [], "types": self.readtypes}, tid)
        return True

    def s_disk(self, tid=0, pid=1):
        self.emit({"act": "disk", "data": True}, tid)
        return True

    def s_coldcopy(self, tid=0, pid=1):
        """stop this library copy and continue in another one, started cold on the same disk (a new process)"""
        cur = self.pid_of[tid]
        np_ = 2 if cur == 1 else 1
        self.emit({"act": "stop"}, tid)
        self.emit({"act": "start", "pid": np_}, tid)
        return True

    def relogin_all(self, tid=0):
        """after a restart: one RW session per token, user logged in, and a full read-out"""
        pid = self.pid_of[tid]
        for t in self.toks():
            tk = self.w.toks[t]
            s = self.new_sess()
            self.emit({"f": "C_OpenSession", "slot": t, "flags": RW, "out": s}, tid)
            if tk.user_pin is not None:
                self.emit({"f": "C_Login", "s": s, "user": K.CKU_USER, "pin": tk.user_pin.hex()}, tid)
            self.emit({"act": "readout", "s": s, "tmpl": [], "types": self.readtypes, "after_restart": True}, tid)


# =====================================================================================================
def decode_read(typ, a):
    """normalise one attribute read-out record of the executor into a comparable python value, or ('ERR', rv) / ('UNAVAILABLE',)"""
    if a is None: return ("MISSING",)
    if "t" in a and isinstance(a["t"], list):
        return {x[0]: bytes.fromhex(x[1]) for x in a["t"]}
    if "v" in a:
        b = bytes.fromhex(a["v"])
        if typ in MECH_ATTRS:
            return sorted(int.from_bytes(b[i:i + 8], "little") for i in range(0, len(b) - 7, 8))
        return b
    if a.get("len") == -1: return ("UNAVAILABLE",)
    return ("ERR", a.get("rv"))

def norm_supplied(typ, v):
    if typ in MECH_ATTRS and isinstance(v, (bytes, bytearray)):
        return sorted(set(int.from_bytes(v[i:i + 8], "little") for i in range(0, len(v) - 7, 8)))
    if typ in BOOLS and isinstance(v, (bytes, bytearray)) and len(v) == 1:
        return b"\x01" if v != b"\x00" else b"\x00"
    return v

class StoreOracle:
    """expected attribute values per object: supplied by templates, or pinned at the first read after creation"""
    def __init__(self):
        self.exp = {}       # ref -> {type: value}
        self.unreadable = {}  # ref -> set(types) that answered SENSITIVE/err at pin time
    def on_create(self, ref, tmpl, src=None):
        e = dict(self.exp.get(src, {})) if src else {}
        self.exp[ref] = e
        if src: self.unreadable[ref] = set(self.unreadable.get(src, ()))
        self.on_set(ref, tmpl)
    def on_set(self, ref, tmpl):
        e = self.exp.setdefault(ref, {})
        for x in tmpl or []:
            if x[1] == "t": e[x[0]] = {y[0]: bytes.fromhex(y[2]) for y in x[2] if y[1] == "x"}
            elif x[1] == "x": e[x[0]] = norm_supplied(x[0], bytes.fromhex(x[2]))
    def pin(self, ref, attrs):
        """attrs: {str(type): record}; returns list of (type, supplied, read) mismatches against supplied values"""
        e = self.exp.setdefault(ref, {}); bad = []
        for ts, a in attrs.items():
            t = int(ts); v = decode_read(t, a)
            if isinstance(v, tuple):
                if v[0] in ("UNAVAILABLE", "ERR"): self.unreadable.setdefault(ref, set()).add(t)
                continue
            if t in e:
                if not same(t, e[t], v): bad.append((t, e[t], v))
            else:
                e[t] = v
        return bad
    def compare(self, ref, attrs, skip=()):
        e = self.exp.get(ref, {}); bad = []
        for ts, a in attrs.items():
            t = int(ts)
            if t not in e or t in skip or t in self.unreadable.get(ref, ()): continue
            v = decode_read(t, a)
            if isinstance(v, tuple):
                if v[0] == "UNAVAILABLE" and t in objs.SECRET_ATTRS: continue
                bad.append((t, e[t], v)); continue
            if not same(t, e[t], v): bad.append((t, e[t], v))
        return bad

def same(t, a, b):
    if t in BOOLS and isinstance(a, bytes) and isinstance(b, bytes) and len(a) == 1 and len(b) == 1:
        return (a != b"\x00") == (b != b"\x00")
    return a == b

def fmt(v):
    if isinstance(v, (bytes, bytearray)): return (v.hex()[:40] + ("..(%d bytes)" % len(v) if len(v) > 20 else ""))
    return str(v)[:80]
