// p11sim: per-run global state
#pragma once
#include "sim.hpp"
#include <tuple>

struct Run {
    std::vector<Task*> tasks;
    int cur = -1;
    bool sched_on = false;
    Prng rng;
    std::string policy = "call";
    double switch_p = 0.2;
    bool guided = false;
    std::map<std::tuple<int, int, int>, int> guide;   // (tid, op, yield ordinal) -> tid to run
    J trace = J::arr();
    // 'park' pre-emption (long pre-emption, PCT-like): task tid, on reaching yield ordinal y of its op, stays off the processor until the other tasks have
    // passed n further call boundaries (or none of them can run)
    struct Park { int tid, op, y, n; };
    std::vector<Park> parks;
    long call_yields = 0;
    std::string hist;
    uint64_t hash = 0xcbf29ce484222325ull;
    int nev = 0;
    long steps = 0;
    long step_budget = 5000000;
    long switches[5] = {0, 0, 0, 0, 0};
    int outfd = -1;
    sem_t done_sem;
    int ctrl_pid = 1;
    long mutex_created = 0, mutex_locks = 0, mutex_blocked = 0, rng_draws = 0;
    J extra = J::obj();
};
extern Run R;

void run_finish(const char* status, int code, const char* why);
void install_death_handlers(int watchdog_s);
void task_finished(Task* t);
void task_begin_op(Task* t, int op);
int err_by_name(const std::string& n);
