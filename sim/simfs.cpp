// Simulated disk + libc wrap layer.  Every library file operation ends here.
#include "sim.hpp"
#include <cstdarg>
#include <cerrno>
#include <fcntl.h>
#include <dirent.h>
#include <unistd.h>
#include <pwd.h>
#include <syslog.h>
#include <algorithm>
#include <functional>
#include <set>

SimFS g_fs;
bool g_log_fs = false;

struct OpenFile {
    InodeP ino; off_t off = 0; int flags = 0; int pid = 0; std::string path; int fd = 0; FILE* fp = nullptr;
};
static std::map<int, OpenFile*> g_fds;
static std::map<FILE*, int> g_fp2fd;
static const int FD_BASE = 10000;

struct SimDir { int magic; std::vector<std::pair<std::string, bool>> ents; size_t pos; struct dirent de; std::string path; };
static const int DIR_MAGIC = 0x51D1D1;

// ------------------------------------------------------------------ helpers
static std::vector<std::string> split(const std::string& p) {
    std::vector<std::string> out; std::string cur;
    for (char c : p) { if (c == '/') { if (!cur.empty()) out.push_back(cur); cur.clear(); } else cur += c; }
    if (!cur.empty()) out.push_back(cur);
    std::vector<std::string> norm;
    for (auto& s : out) { if (s == ".") continue; if (s == "..") { if (!norm.empty()) norm.pop_back(); continue; } norm.push_back(s); }
    return norm;
}

void SimFS::reset() {
    root = std::make_shared<Inode>(); root->isdir = true; root->mode = 0755; root->ino = 1;
    next_ino = 2; snaps.clear(); faults.clear(); fired.clear(); opcount.clear();
    for (auto& kv : g_fds) delete kv.second;
    g_fds.clear(); g_fp2fd.clear();
}

InodeP SimFS::lookup(const std::string& path, InodeP* parent, std::string* leaf) {
    auto parts = split(path);
    InodeP cur = root;
    if (parent) *parent = nullptr;
    if (parts.empty()) return cur;
    for (size_t k = 0; k < parts.size(); k++) {
        if (!cur || !cur->isdir) return nullptr;
        if (k + 1 == parts.size()) { if (parent) *parent = cur; if (leaf) *leaf = parts[k]; }
        auto it = cur->ents.find(parts[k]);
        if (it == cur->ents.end()) return nullptr;
        cur = it->second;
    }
    return cur;
}

InodeP SimFS::clone_tree(const InodeP& n) {
    auto c = std::make_shared<Inode>();
    c->isdir = n->isdir; c->mode = n->mode; c->ino = n->ino; c->data = n->data; c->order = n->order;
    for (auto& kv : n->ents) c->ents[kv.first] = clone_tree(kv.second);
    return c;
}

bool SimFS::mkdirs(const std::string& path, mode_t mode) {
    auto parts = split(path); InodeP cur = root;
    for (auto& s : parts) {
        auto it = cur->ents.find(s);
        if (it == cur->ents.end()) {
            auto d = std::make_shared<Inode>(); d->isdir = true; d->mode = mode; d->ino = next_ino++;
            cur->ents[s] = d; cur->order.push_back(s); cur = d;
        } else cur = it->second;
        if (!cur->isdir) return false;
    }
    return true;
}

void SimFS::put_file(const std::string& path, const std::string& data, mode_t mode) {
    InodeP par; std::string leaf;
    auto parts = split(path);
    std::string dir; for (size_t k = 0; k + 1 < parts.size(); k++) dir += "/" + parts[k];
    mkdirs(dir, 0700);
    InodeP f = lookup(path, &par, &leaf);
    if (!f) { f = std::make_shared<Inode>(); f->ino = next_ino++; par->ents[leaf] = f; par->order.push_back(leaf); }
    f->isdir = false; f->mode = mode; f->data = std::make_shared<std::string>(data);
}

static uint64_t fnv(uint64_t h, const void* p, size_t n) { const unsigned char* b = (const unsigned char*)p; for (size_t k = 0; k < n; k++) { h ^= b[k]; h *= 0x100000001b3ull; } return h; }

std::string SimFS::tree_hash(const InodeP& n) {
    // content hash of the tree; lock files (*.lock) are ignored when empty
    uint64_t h = 0xcbf29ce484222325ull;
    std::function<void(const InodeP&, const std::string&)> rec = [&](const InodeP& x, const std::string& name) {
        h = fnv(h, name.data(), name.size()); h = fnv(h, "\0", 1);
        if (x->isdir) { h = fnv(h, "D", 1); for (auto& kv : x->ents) {
                if (!kv.second->isdir && kv.first.size() > 5 && kv.first.substr(kv.first.size() - 5) == ".lock" && (!kv.second->data || kv.second->data->empty())) continue;
                rec(kv.second, kv.first); } h = fnv(h, "E", 1); }
        else { h = fnv(h, "F", 1); if (x->data) h = fnv(h, x->data->data(), x->data->size()); uint64_t sz = x->data ? x->data->size() : 0; h = fnv(h, &sz, 8); }
    };
    rec(n, "");
    char buf[20]; snprintf(buf, sizeof buf, "%016llx", (unsigned long long)h); return buf;
}

J SimFS::dump_tree(const InodeP& n, bool with_data) {
    J out = J::obj();
    std::function<void(const InodeP&, const std::string&)> rec = [&](const InodeP& x, const std::string& path) {
        if (x->isdir) {
            if (!path.empty()) { J d = J::obj(); d.set("dir", true); char m[8]; snprintf(m, 8, "%04o", (unsigned)x->mode); d.set("mode", m); out.set(path, d); }
            for (auto& kv : x->ents) rec(kv.second, path + "/" + kv.first);
        } else {
            J f = J::obj(); char m[8]; snprintf(m, 8, "%04o", (unsigned)x->mode); f.set("mode", m);
            f.set("size", (long)(x->data ? x->data->size() : 0));
            if (with_data) f.set("hex", x->data ? tohex(*x->data) : "");
            out.set(path, f);
        }
    };
    rec(n, "");
    return out;
}

void SimFS::restore(const InodeP& snap) {
    // all descriptors of all processes are gone (used only between process lifetimes)
    root = clone_tree(snap);
}

void simvfs_drop_pid(int pid);
void SimFS::drop_pid(int pid) {
    simvfs_drop_pid(pid);
    std::vector<int> dead;
    for (auto& kv : g_fds) if (kv.second->pid == pid) dead.push_back(kv.first);
    for (int fd : dead) {
        OpenFile* of = g_fds[fd];
        if (of->fp) g_fp2fd.erase(of->fp);
        of->ino->locks.erase(pid);
        sim_wake_all(of->ino.get());
        // the FILE* (if any) is leaked on purpose: the "process" is dead
        delete of; g_fds.erase(fd);
    }
    // any lock left by that pid
    std::function<void(const InodeP&)> rec = [&](const InodeP& x) { x->locks.erase(pid); for (auto& kv : x->ents) rec(kv.second); };
    rec(root);
}

// ------------------------------------------------------------------ role of a path (for crash windows)
static std::string role_of(const std::string& path) {
    auto ends = [&](const char* s) { size_t n = strlen(s); return path.size() >= n && path.compare(path.size() - n, n, s) == 0; };
    if (ends("/token.object")) return "token.object";
    if (ends("/token.lock")) return "token.lock";
    if (ends(".object")) return "object";
    if (ends(".lock")) return "lock";
    if (ends("/generation")) return "generation";
    if (ends(".conf")) return "conf";
    return "other";
}

// ------------------------------------------------------------------ fault lookup + event logging
static const char* errname(int e) {
    switch (e) { case 0: return "0"; case EACCES: return "EACCES"; case EMFILE: return "EMFILE"; case ENOENT: return "ENOENT"; case ENOSPC: return "ENOSPC";
        case EINTR: return "EINTR"; case EIO: return "EIO"; case ENOLCK: return "ENOLCK"; case EDEADLK: return "EDEADLK"; case EBUSY: return "EBUSY";
        case EEXIST: return "EEXIST"; case ENOTEMPTY: return "ENOTEMPTY"; case EBADF: return "EBADF"; case ENOTDIR: return "ENOTDIR"; case EISDIR: return "EISDIR";
        case EAGAIN: return "EAGAIN"; case EINVAL: return "EINVAL"; case EROFS: return "EROFS"; case EDQUOT: return "EDQUOT"; default: return "E?"; }
}
int err_by_name(const std::string& n) {
    static const std::map<std::string, int> m = {{"EACCES", EACCES}, {"EMFILE", EMFILE}, {"ENOENT", ENOENT}, {"ENOSPC", ENOSPC}, {"EINTR", EINTR}, {"EIO", EIO},
        {"ENOLCK", ENOLCK}, {"EDEADLK", EDEADLK}, {"EBUSY", EBUSY}, {"EEXIST", EEXIST}, {"ENOTEMPTY", ENOTEMPTY}, {"EAGAIN", EAGAIN}, {"EROFS", EROFS}, {"EDQUOT", EDQUOT}, {"SHORT", 0}};
    auto it = m.find(n); return it == m.end() ? EIO : it->second;
}

// returns the fault to apply to this op (or nullptr); advances per-op ordinals
static Fault* fs_enter(const char* kind) {
    g_fs.opcount[kind]++;
    sim_yield(Y_FS);
    Task* t = tl_task;
    if (!t) return nullptr;
    int nth = t->fs_nth[kind]++;
    if (!t->in_call) return nullptr;
    for (auto& f : g_fs.faults) {
        if (f.tid == t->tid && f.op == t->cur_op && f.fs == kind && (f.nth == nth || (f.sticky && nth >= f.nth))) {
            f.fired = true;
            g_fs.fired[std::string(kind) + "." + (f.err ? errname(f.err) : "SHORT")]++;
            return &f;
        }
    }
    return nullptr;
}

static void fs_log(const char* kind, const std::string& path, long a, long b, long rv, int err, const Fault* flt) {
    char buf[64]; snprintf(buf, sizeof buf, "|%ld|%ld|%ld|%d|", a, b, rv, err);
    hist_hash_only(std::string("fs:") + kind + ":" + path + buf);
    if (g_log_fs || flt) {
        J ev = J::obj(); ev.set("e", "fs"); ev.set("k", kind); ev.set("path", path); ev.set("a", a); ev.set("b", b); ev.set("rv", rv);
        if (err) ev.set("errno", errname(err));
        if (flt) ev.set("fault", true);
        Task* t = tl_task; if (t) { ev.set("op", t->cur_op); }
        hist_event(ev);
    }
}

static void take_snapshot(const char* kind, const std::string& path, const std::string* wdata = nullptr, size_t woff = 0) {
    if (!g_fs.record_snaps) return;
    Snapshot s; s.root = g_fs.clone_tree(g_fs.root); s.kind = kind; s.path = path; s.role = role_of(path);
    Task* t = tl_task; if (t) { s.tid = t->tid; s.op = t->cur_op; }
    if (wdata) { s.wdata = *wdata; s.wlen = wdata->size(); s.woff = woff; }
    g_fs.snaps.push_back(std::move(s));
}

static std::string& wdata(const InodeP& f) {
    if (!f->data) f->data = std::make_shared<std::string>();
    else if (f->data.use_count() > 1) f->data = std::make_shared<std::string>(*f->data);
    return *f->data;
}

// ------------------------------------------------------------------ core ops
static int sim_open(const char* path, int flags, mode_t mode) {
    Fault* flt = fs_enter("open");
    if (flt) { fs_log("open", path, flags, mode, -1, flt->err, flt); errno = flt->err; return -1; }
    InodeP par; std::string leaf;
    InodeP f = g_fs.lookup(path, &par, &leaf);
    int pid = sim_cur_pid();
    if (!f) {
        if (!(flags & O_CREAT) || !par) { fs_log("open", path, flags, mode, -1, ENOENT, nullptr); errno = ENOENT; return -1; }
        take_snapshot("create", path);
        f = std::make_shared<Inode>(); f->ino = g_fs.next_ino++; f->mode = mode & ~g_fs.proc_umask & 07777; f->data = std::make_shared<std::string>();
        par->ents[leaf] = f; par->order.push_back(leaf);
        exec_note_created(path);
        { J d = J::obj(); d.set("path", path); char m[8]; snprintf(m, 8, "%04o", (unsigned)f->mode); d.set("mode", m); char rq[8]; snprintf(rq, 8, "%04o", (unsigned)mode); d.set("req", rq); d.set("kind", "file"); hist_mon("created", d); }
    } else {
        if (f->isdir) { fs_log("open", path, flags, mode, -1, EISDIR, nullptr); errno = EISDIR; return -1; }
        if ((flags & O_TRUNC) && (flags & (O_WRONLY | O_RDWR))) {
            if (f->data && !f->data->empty()) { take_snapshot("truncate", path); wdata(f).clear(); }
        }
    }
    int fd = FD_BASE; while (g_fds.count(fd)) fd++;
    OpenFile* of = new OpenFile; of->ino = f; of->flags = flags; of->pid = pid; of->path = path; of->fd = fd;
    g_fds[fd] = of; f->opens++;
    fs_log("open", path, flags, mode, fd, 0, nullptr);
    return fd;
}

static OpenFile* getof(int fd) { auto it = g_fds.find(fd); return it == g_fds.end() ? nullptr : it->second; }

static ssize_t ck_read(void* c, char* buf, size_t n) {
    OpenFile* of = getof((int)(intptr_t)c); if (!of) { errno = EBADF; return -1; }
    Fault* flt = fs_enter("read");
    if (flt && flt->err) { fs_log("read", of->path, of->off, n, -1, flt->err, flt); errno = flt->err; return -1; }
    if (of->ino->rewriting_pid && of->ino->rewriting_pid != of->pid) {
        // lock protocol monitor: another process reads a file between a writer's truncate and the end of its store
        J d = J::obj(); d.set("path", of->path); d.set("reader", of->pid); d.set("writer", of->ino->rewriting_pid); hist_mon("read_in_rewrite_window", d);
    }
    size_t sz = of->ino->data ? of->ino->data->size() : 0;
    size_t can = (size_t)of->off < sz ? sz - of->off : 0;
    size_t k = std::min(can, n);
    if (flt && !flt->err && k > 1) k = std::min<size_t>(k, flt->partial > 0 ? flt->partial : 1);   // short read
    else if (g_fs.short_io && k > 7) k = k - (k / 3);
    if (k) memcpy(buf, of->ino->data->data() + of->off, k);
    fs_log("read", of->path, of->off, n, k, 0, flt);
    of->off += k;
    return k;
}

static ssize_t ck_write(void* c, const char* buf, size_t n) {
    // glibc retries short write()s on real files but not on cookie streams, so the retry loop lives here:
    // every iteration is one simulated write(2) (own yield point, own fault slot, own crash point).
    OpenFile* of = getof((int)(intptr_t)c); if (!of) { errno = EBADF; return 0; }
    size_t done = 0;
    while (done < n) {
        Fault* flt = fs_enter("write");
        of = getof((int)(intptr_t)c); if (!of) { errno = EBADF; return done; }
        size_t k = n - done; int err = 0;
        { Task* t_ = tl_task; if (t_ && (long)k > t_->wmax_size) { t_->wmax_size = (long)k; t_->wmax_nth = t_->fs_nth["write"] - 1; } }
        if (flt) {
            if (flt->err) { err = flt->err; k = flt->partial > 0 ? std::min<size_t>(flt->partial, k - 1) : 0; }
            else k = std::min<size_t>(k, flt->partial > 0 ? flt->partial : 1);
        } else if (g_fs.short_io && k > 7) k = k - (k / 3);
        if (k) {
            std::string chunk(buf + done, k);
            take_snapshot("write", of->path, &chunk, of->off);
            std::string& d = wdata(of->ino);
            if (d.size() < (size_t)of->off + k) d.resize(of->off + k, '\0');
            memcpy(&d[of->off], buf + done, k);
            of->off += k;
            mon_scan_file(of->path, d);
        }
        fs_log("write", of->path, of->off - k, n - done, k, err, flt);
        done += k;
        if (err) { errno = err; return done; }   // done < n: glibc flags the stream error
    }
    return done;
}

static int ck_seek(void* c, off64_t* off, int whence) {
    OpenFile* of = getof((int)(intptr_t)c); if (!of) { errno = EBADF; return -1; }
    size_t sz = of->ino->data ? of->ino->data->size() : 0;
    off64_t np = whence == SEEK_SET ? *off : whence == SEEK_CUR ? of->off + *off : (off64_t)sz + *off;
    if (np < 0) { errno = EINVAL; return -1; }
    of->off = np; *off = np;
    return 0;
}

static int sim_close_fd(int fd) {
    OpenFile* of = getof(fd); if (!of) { errno = EBADF; return -1; }
    sim_yield(Y_FS);
    // POSIX: closing ANY descriptor of the file drops all locks the process holds on it
    if (of->ino->locks.erase(of->pid)) sim_wake_all(of->ino.get());
    if (of->ino->rewriting_pid == of->pid) of->ino->rewriting_pid = 0;
    of->ino->opens--;
    fs_log("close", of->path, fd, 0, 0, 0, nullptr);
    if (of->fp) g_fp2fd.erase(of->fp);
    delete of; g_fds.erase(fd);
    return 0;
}
static int ck_close(void* c) { return sim_close_fd((int)(intptr_t)c); }

static FILE* sim_fdopen(int fd, const char* mode) {
    OpenFile* of = getof(fd); if (!of) { errno = EBADF; return nullptr; }
    cookie_io_functions_t io = {ck_read, ck_write, ck_seek, ck_close};
    FILE* fp = fopencookie((void*)(intptr_t)fd, mode, io);
    if (!fp) return nullptr;
    if (g_fs.stdio_buf > 0) setvbuf(fp, nullptr, _IOFBF, g_fs.stdio_buf);
    of->fp = fp; g_fp2fd[fp] = fd;
    return fp;
}

// ------------------------------------------------------------------ pass-through ("real" backing): every path outside /sim/ goes to the kernel
static inline bool is_sim_path(const char* p) { return p && !strncmp(p, "/sim/", 5); }
static std::set<void*> g_simdirs;
std::string g_real_root;     // the real scratch token directory of this run (knobs.tokendir): its own name is not part of the execution's identity
static void real_log(const char* kind, const char* path, long rv) {
    g_fs.opcount[std::string("real.") + kind]++;
    sim_yield(Y_FS);
    char buf[48]; snprintf(buf, sizeof buf, "|%ld|", rv < 0 ? -1 : (strcmp(kind, "open") ? rv : 0));
    std::string p = path ? path : "";
    if (!g_real_root.empty() && p.compare(0, g_real_root.size(), g_real_root) == 0) p = "<tokendir>" + p.substr(g_real_root.size());
    hist_hash_only(std::string("rfs:") + kind + ":" + p + buf);
}

// ------------------------------------------------------------------ the wraps
extern "C" {

int __wrap_open(const char* path, int flags, ...) {
    mode_t mode = 0;
    if (flags & O_CREAT) { va_list ap; va_start(ap, flags); mode = va_arg(ap, int); va_end(ap); }
    if (!is_sim_path(path)) { int fd = __real_open(path, flags, mode); real_log("open", path, fd); return fd; }
    return sim_open(path, flags, mode);
}

int __wrap_close(int fd) { if (fd < FD_BASE) return __real_close(fd); return sim_close_fd(fd); }

FILE* __wrap_fdopen(int fd, const char* mode) { if (fd < FD_BASE) return __real_fdopen(fd, mode); return sim_fdopen(fd, mode); }

FILE* __wrap_fopen(const char* path, const char* mode) {
    if (!is_sim_path(path)) { FILE* fp = __real_fopen(path, mode); real_log("fopen", path, fp ? 0 : -1); return fp; }
    int flags = O_RDONLY;
    if (mode[0] == 'w') flags = (strchr(mode, '+') ? O_RDWR : O_WRONLY) | O_CREAT | O_TRUNC;
    else if (mode[0] == 'a') flags = (strchr(mode, '+') ? O_RDWR : O_WRONLY) | O_CREAT | O_APPEND;
    else if (strchr(mode, '+')) flags = O_RDWR;
    int fd = sim_open(path, flags, 0666);
    if (fd < 0) return nullptr;
    FILE* fp = sim_fdopen(fd, mode);
    if (!fp) sim_close_fd(fd);
    return fp;
}

int __wrap_fileno(FILE* fp) {
    auto it = g_fp2fd.find(fp);
    if (it != g_fp2fd.end()) return it->second;
    return __real_fileno(fp);
}

int __wrap_ftruncate(int fd, off_t len) {
    if (fd < FD_BASE) { int rv = __real_ftruncate(fd, len); real_log("ftruncate", "", rv); return rv; }
    OpenFile* of = getof(fd); if (!of) { errno = EBADF; return -1; }
    Fault* flt = fs_enter("ftruncate");
    if (flt) { fs_log("ftruncate", of->path, len, 0, -1, flt->err, flt); errno = flt->err; return -1; }
    size_t sz = of->ino->data ? of->ino->data->size() : 0;
    if (sz != (size_t)len) { take_snapshot("truncate", of->path); wdata(of->ino).resize(len, '\0'); }
    of->ino->rewriting_pid = of->pid;
    fs_log("ftruncate", of->path, len, sz, 0, 0, nullptr);
    return 0;
}

static void fill_stat(const InodeP& f, struct stat* st) {
    memset(st, 0, sizeof *st);
    st->st_ino = f->ino; st->st_mode = (f->isdir ? S_IFDIR : S_IFREG) | f->mode; st->st_nlink = 1;
    st->st_size = f->isdir ? 4096 : (f->data ? f->data->size() : 0); st->st_blksize = 4096;
}

int __wrap_fstat(int fd, struct stat* st) {
    if (fd < FD_BASE) { int rv = __real_fstat(fd, st); real_log("fstat", "", rv); return rv; }
    OpenFile* of = getof(fd); if (!of) { errno = EBADF; return -1; }
    Fault* flt = fs_enter("fstat");
    if (flt) { fs_log("fstat", of->path, 0, 0, -1, flt->err, flt); errno = flt->err; return -1; }
    fill_stat(of->ino, st);
    fs_log("fstat", of->path, 0, 0, st->st_size, 0, nullptr);
    return 0;
}

int __wrap_lstat(const char* path, struct stat* st) {
    if (!is_sim_path(path)) { int rv = __real_lstat(path, st); real_log("lstat", path, rv); return rv; }
    Fault* flt = fs_enter("lstat");
    if (flt) { fs_log("lstat", path, 0, 0, -1, flt->err, flt); errno = flt->err; return -1; }
    InodeP f = g_fs.lookup(path);
    if (!f) { fs_log("lstat", path, 0, 0, -1, ENOENT, nullptr); errno = ENOENT; return -1; }
    fill_stat(f, st);
    fs_log("lstat", path, 0, 0, 0, 0, nullptr);
    return 0;
}

int __wrap_access(const char* path, int mode) {
    if (!is_sim_path(path)) { int rv = __real_access(path, mode); real_log("access", path, rv); return rv; }
    sim_yield(Y_FS);
    InodeP f = g_fs.lookup(path);
    fs_log("access", path, mode, 0, f ? 0 : -1, f ? 0 : ENOENT, nullptr);
    if (!f) { errno = ENOENT; return -1; }
    return 0;
}

int __wrap_fcntl(int fd, int cmd, ...) {
    va_list ap; va_start(ap, cmd); void* arg = va_arg(ap, void*); va_end(ap);
    if (fd < FD_BASE) { int rv = __real_fcntl(fd, cmd, arg); real_log("fcntl", "", rv); return rv; }
    OpenFile* of = getof(fd); if (!of) { errno = EBADF; return -1; }
    if (cmd != F_SETLK && cmd != F_SETLKW) { errno = EINVAL; return -1; }
    struct flock* fl = (struct flock*)arg;
    const char* kind = fl->l_type == F_UNLCK ? "unlock" : "lock";
    Fault* flt = fs_enter(kind);
    if (flt) { fs_log(kind, of->path, fl->l_type, cmd == F_SETLKW, -1, flt->err, flt); errno = flt->err; return -1; }
    int pid = of->pid;
    if (fl->l_type == F_UNLCK) {
        if (of->ino->rewriting_pid == pid) of->ino->rewriting_pid = 0;
        if (of->ino->locks.erase(pid)) sim_wake_all(of->ino.get());
        fs_log(kind, of->path, fl->l_type, 0, 0, 0, nullptr);
        return 0;
    }
    // POSIX: the descriptor must be open for the matching access mode
    int acc = of->flags & O_ACCMODE;
    if ((fl->l_type == F_WRLCK && acc == O_RDONLY) || (fl->l_type == F_RDLCK && acc == O_WRONLY)) { fs_log(kind, of->path, fl->l_type, 0, -1, EBADF, nullptr); errno = EBADF; return -1; }
    for (;;) {
        bool conflict = false;
        for (auto& kv : of->ino->locks) { if (kv.first == pid) continue; if (fl->l_type == F_WRLCK || kv.second == F_WRLCK) conflict = true; }
        if (!conflict) break;
        if (cmd == F_SETLK) { fs_log(kind, of->path, fl->l_type, 0, -1, EAGAIN, nullptr); errno = EAGAIN; return -1; }
        g_fs.opcount["lock_blocked"]++;
        sim_block_on(of->ino.get(), "flock");
        of = getof(fd); if (!of) { errno = EBADF; return -1; }
    }
    of->ino->locks[pid] = fl->l_type;
    fs_log(kind, of->path, fl->l_type, cmd == F_SETLKW, 0, 0, nullptr);
    return 0;
}

DIR* __wrap_opendir(const char* path) {
    if (!is_sim_path(path)) { DIR* d = (DIR*)__real_opendir(path); real_log("opendir", path, d ? 0 : -1); return d; }
    Fault* flt = fs_enter("opendir");
    if (flt) { fs_log("opendir", path, 0, 0, -1, flt->err, flt); errno = flt->err; return nullptr; }
    InodeP d = g_fs.lookup(path);
    if (!d) { fs_log("opendir", path, 0, 0, -1, ENOENT, nullptr); errno = ENOENT; return nullptr; }
    if (!d->isdir) { fs_log("opendir", path, 0, 0, -1, ENOTDIR, nullptr); errno = ENOTDIR; return nullptr; }
    SimDir* sd = new SimDir; sd->magic = DIR_MAGIC; sd->pos = 0; sd->path = path;
    std::vector<std::string> names;
    if (g_fs.readdir_order == "name") { for (auto& kv : d->ents) names.push_back(kv.first); }
    else { for (auto& n : d->order) if (d->ents.count(n)) names.push_back(n);
        if (g_fs.readdir_order == "reverse") std::reverse(names.begin(), names.end());
        else if (g_fs.readdir_order == "shuffle") { Prng r; r.seed(g_fs.shuffle_seed ^ d->ino * 0x9E37u ^ names.size());
            for (size_t k = names.size(); k > 1; k--) std::swap(names[k - 1], names[r.below(k)]); } }
    sd->ents.push_back({".", true}); sd->ents.push_back({"..", true});
    for (auto& n : names) sd->ents.push_back({n, d->ents[n]->isdir});
    fs_log("opendir", path, 0, 0, (long)names.size(), 0, nullptr);
    g_simdirs.insert(sd);
    return (DIR*)sd;
}

struct dirent* __wrap_readdir(DIR* dp) {
    if (!g_simdirs.count(dp)) return __real_readdir(dp);
    SimDir* sd = (SimDir*)dp;
    Fault* flt = fs_enter("readdir");
    if (flt) { fs_log("readdir", sd->path, sd->pos, 0, -1, flt->err, flt); errno = flt->err; return nullptr; }
    if (sd->pos >= sd->ents.size()) return nullptr;
    auto& e = sd->ents[sd->pos++];
    memset(&sd->de, 0, sizeof sd->de);
    strncpy(sd->de.d_name, e.first.c_str(), sizeof sd->de.d_name - 1);
    sd->de.d_type = e.second ? DT_DIR : DT_REG; sd->de.d_ino = 1;
    return &sd->de;
}

int __wrap_closedir(DIR* dp) { if (!g_simdirs.count(dp)) return __real_closedir(dp); SimDir* sd = (SimDir*)dp; sim_yield(Y_FS); g_simdirs.erase(dp); delete sd; return 0; }

int __wrap_mkdir(const char* path, mode_t mode) {
    if (!is_sim_path(path)) { int rv = __real_mkdir(path, mode); real_log("mkdir", path, rv); return rv; }
    Fault* flt = fs_enter("mkdir");
    if (flt) { fs_log("mkdir", path, mode, 0, -1, flt->err, flt); errno = flt->err; return -1; }
    InodeP par; std::string leaf;
    InodeP f = g_fs.lookup(path, &par, &leaf);
    if (f) { fs_log("mkdir", path, mode, 0, -1, EEXIST, nullptr); errno = EEXIST; return -1; }
    if (!par) { fs_log("mkdir", path, mode, 0, -1, ENOENT, nullptr); errno = ENOENT; return -1; }
    take_snapshot("mkdir", path);
    auto d = std::make_shared<Inode>(); d->isdir = true; d->mode = mode & ~g_fs.proc_umask & 07777; d->ino = g_fs.next_ino++;
    par->ents[leaf] = d; par->order.push_back(leaf);
    { J dd = J::obj(); dd.set("path", path); char m[8]; snprintf(m, 8, "%04o", (unsigned)d->mode); dd.set("mode", m); char rq[8]; snprintf(rq, 8, "%04o", (unsigned)(mode & 07777)); dd.set("req", rq); dd.set("kind", "dir"); hist_mon("created", dd); }
    fs_log("mkdir", path, mode, 0, 0, 0, nullptr);
    return 0;
}

static int sim_unlink_any(const char* kind, const char* path, bool want_dir, bool any) {
    Fault* flt = fs_enter(kind);
    if (flt) { fs_log(kind, path, 0, 0, -1, flt->err, flt); errno = flt->err; return -1; }
    InodeP par; std::string leaf;
    InodeP f = g_fs.lookup(path, &par, &leaf);
    if (!f || !par) { fs_log(kind, path, 0, 0, -1, ENOENT, nullptr); errno = ENOENT; return -1; }
    if (!any && f->isdir != want_dir) { int e = want_dir ? ENOTDIR : EISDIR; fs_log(kind, path, 0, 0, -1, e, nullptr); errno = e; return -1; }
    if (f->isdir && !f->ents.empty()) { fs_log(kind, path, 0, 0, -1, ENOTEMPTY, nullptr); errno = ENOTEMPTY; return -1; }
    take_snapshot(f->isdir ? "rmdir" : "unlink", path);
    par->ents.erase(leaf);
    par->order.erase(std::remove(par->order.begin(), par->order.end(), leaf), par->order.end());
    fs_log(kind, path, 0, 0, 0, 0, nullptr);
    return 0;
}
int __wrap_rmdir(const char* path) { if (!is_sim_path(path)) { int rv = __real_rmdir(path); real_log("rmdir", path, rv); return rv; } return sim_unlink_any("rmdir", path, true, false); }
int __wrap_remove(const char* path) { if (!is_sim_path(path)) { int rv = __real_remove(path); real_log("remove", path, rv); return rv; } return sim_unlink_any("remove", path, false, true); }
int __wrap_unlink(const char* path) { if (!is_sim_path(path)) { int rv = __real_unlink(path); real_log("unlink", path, rv); return rv; } return sim_unlink_any("remove", path, false, false); }

void __wrap_syslog(int pri, const char* fmt, ...) {
    // captured and hashed (log text is part of the deterministic behaviour), never printed
    char buf[512]; va_list ap; va_start(ap, fmt); vsnprintf(buf, sizeof buf, fmt, ap); va_end(ap);
    extern bool g_log_syslog;
    if (g_log_syslog) { J ev = J::obj(); ev.set("e", "syslog"); ev.set("pri", pri); ev.set("msg", buf); hist_event(ev); }
}

time_t __wrap_time(time_t* t) { time_t v = 1700000000; if (t) *t = v; return v; }
pid_t __wrap_getpid(void) { return 4000 + sim_cur_pid(); }
uid_t __wrap_getuid(void) { return 1000; }
int __wrap_getpwuid_r(uid_t, struct passwd*, char*, size_t, struct passwd** res) { if (res) *res = nullptr; return ENOENT; }

char* __wrap_getenv(const char* name) {
    static char conf[] = "/sim/softhsm2.conf";
    if (!strcmp(name, "SOFTHSM2_CONF")) return conf;
    if (!strcmp(name, "HOME")) return nullptr;
    return __real_getenv(name);
}

void __wrap_exit(int code) {
    J d = J::obj(); d.set("code", code); hist_mon("exit", d);
    sim_die(99, "library called exit()");
}

// OS-locking mode: osmutex.cpp's pthread mutexes become simulator mutexes
static std::map<pthread_mutex_t*, void*> g_osm;
int __wrap_pthread_mutex_init(pthread_mutex_t* m, const pthread_mutexattr_t* a) {
    if (tl_task) { g_osm[m] = sim_mutex_create(); return 0; }
    return __real_pthread_mutex_init(m, a);
}
int __wrap_pthread_mutex_destroy(pthread_mutex_t* m) {
    auto it = g_osm.find(m);
    if (it != g_osm.end()) { sim_mutex_destroy(it->second); g_osm.erase(it); return 0; }
    return __real_pthread_mutex_destroy(m);
}
int __wrap_pthread_mutex_lock(pthread_mutex_t* m) {
    if (tl_task) { auto it = g_osm.find(m); if (it != g_osm.end()) { sim_mutex_lock(it->second); return 0; } }
    return __real_pthread_mutex_lock(m);
}
int __wrap_pthread_mutex_unlock(pthread_mutex_t* m) {
    if (tl_task) { auto it = g_osm.find(m); if (it != g_osm.end()) { sim_mutex_unlock(it->second); return 0; } }
    return __real_pthread_mutex_unlock(m);
}

}  // extern "C"

bool g_log_syslog = false;

#include "simvfs.inc"

// ------------------------------------------------------------------ disk monitors
static std::vector<std::pair<std::string, std::string>> g_disk_secrets;
void mon_register_disk_secret(const std::string& bytes, const std::string& label) {
    if (bytes.size() < 8) return;
    for (auto& p : g_disk_secrets) if (p.first == bytes) return;
    g_disk_secrets.push_back({bytes, label});
}
void mon_clear_disk_secrets() { g_disk_secrets.clear(); }
void mon_scan_file(const std::string& path, const std::string& data) {
    for (auto& p : g_disk_secrets) {
        if (data.size() < p.first.size()) continue;
        if (memmem(data.data(), data.size(), p.first.data(), p.first.size())) {
            J d = J::obj(); d.set("path", path); d.set("secret", p.second); hist_mon("plaintext_on_disk", d);
        }
    }
}
