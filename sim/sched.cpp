// Seeded scheduler over parked real threads, history/event hash, RNG seam, death handling.
#include "sim.hpp"
#include "run.hpp"
#include <unistd.h>
#include <signal.h>
#ifndef SIM_BOTAN
#include <openssl/rand.h>
#endif
#include <tuple>

thread_local Task* tl_task = nullptr;
Run R;

// ------------------------------------------------------------------ history
static inline void hash_mix(const char* p, size_t n) {
    uint64_t h = R.hash;
    for (size_t k = 0; k < n; k++) { h ^= (unsigned char)p[k]; h *= 0x100000001b3ull; }
    R.hash = h;
}
void hist_hash_only(const std::string& s) { hash_mix(s.data(), s.size()); hash_mix("\n", 1); }

void hist_event(J& ev) {
    J line = J::obj();
    line.set("n", (long)R.nev++);
    Task* t = tl_task;
    line.set("t", t ? t->tid : -1);
    line.set("p", t ? t->pid : 0);
    for (auto& kv : ev.o) line.o.push_back(kv);
    size_t before = R.hist.size();
    line.dump(R.hist);
    R.hist += '\n';
    hash_mix(R.hist.data() + before, R.hist.size() - before);
}

void hist_mon(const char* kind, const J& detail) {
    J ev = J::obj(); ev.set("e", "mon"); ev.set("k", kind); ev.set("d", detail);
    Task* t = tl_task; if (t) ev.set("op", t->cur_op);
    hist_event(ev);
}

static void write_all(int fd, const char* p, size_t n) {
    while (n) { ssize_t k = write(fd, p, n); if (k <= 0) break; p += k; n -= k; }
}

static unsigned char g_cov[1 << 16];
static long cov_count() { long c = 0; for (size_t k = 0; k < sizeof g_cov; k++) c += __builtin_popcount(g_cov[k]); return c; }

void run_finish(const char* status, int code, const char* why) {
    static bool once = false; if (once) return; once = true;
    J r = J::obj();
    r.set("status", status); r.set("exit", code); if (why) r.set("why", why);
    r.set("events", (long)R.nev); r.set("steps", R.steps);
    char hb[20]; snprintf(hb, sizeof hb, "%016llx", (unsigned long long)R.hash); r.set("hash", hb);
    J fired = J::obj(); for (auto& kv : g_fs.fired) fired.set(kv.first, kv.second); r.set("fired", fired);
    J unf = J::arr(); for (auto& f : g_fs.faults) if (!f.fired) { J u = J::obj(); u.set("tid", f.tid); u.set("op", f.op); u.set("fs", f.fs); u.set("nth", f.nth); unf.push(u); } r.set("unfired", unf);
    J oc = J::obj(); for (auto& kv : g_fs.opcount) oc.set(kv.first, kv.second); r.set("fsops", oc);
    J sw = J::obj(); sw.set("Y1", R.switches[1]); sw.set("Y2", R.switches[2]); sw.set("Y3", R.switches[3]); sw.set("Y4", R.switches[4]); sw.set("forced", R.switches[0]); r.set("switches", sw);
    uint64_t edges = 0; J te = J::arr(); for (auto* t : R.tasks) { edges += t->edges; te.push((long)t->edges); }
    r.set("edges", (long)edges); r.set("task_edges", te); r.set("cov", cov_count());
    r.set("snaps", (long)g_fs.snaps.size());
    r.set("mutex_created", R.mutex_created); r.set("mutex_locks", R.mutex_locks); r.set("mutex_blocked", R.mutex_blocked); r.set("rng_draws", R.rng_draws);
    r.set("trace", R.trace);
    if (R.cur >= 0 && R.cur < (int)R.tasks.size()) { r.set("cur_tid", R.cur); r.set("cur_op", R.tasks[R.cur]->cur_op); }
    for (auto& kv : R.extra.o) r.set(kv.first, kv.second);
    J line = J::obj(); line.set("result", r);
    line.dump(R.hist); R.hist += '\n';
    if (R.outfd >= 0) write_all(R.outfd, R.hist.data(), R.hist.size());
}

void sim_die(int code, const char* why) {
    run_finish("died", code, why);
    _exit(code);
}

extern "C" void __sanitizer_set_death_callback(void (*cb)(void)) __attribute__((weak));
static void on_sanitizer_death() { run_finish("died", 77, "sanitizer report"); }
static void on_signal(int sig) {
    char why[32]; snprintf(why, sizeof why, "signal %d", sig);
    run_finish("died", 128 + sig, why);
    _exit(128 + sig);
}
static void on_alarm(int) { run_finish("died", 96, "real-time watchdog (simulator stuck)"); _exit(96); }

void install_death_handlers(int watchdog_s) {
    if (__sanitizer_set_death_callback) __sanitizer_set_death_callback(on_sanitizer_death);
    struct sigaction sa; memset(&sa, 0, sizeof sa); sa.sa_handler = on_signal; sigemptyset(&sa.sa_mask);
#ifndef __SANITIZE_ADDRESS__
    sigaction(SIGSEGV, &sa, nullptr); sigaction(SIGBUS, &sa, nullptr);
#endif
    sigaction(SIGABRT, &sa, nullptr); sigaction(SIGFPE, &sa, nullptr); sigaction(SIGILL, &sa, nullptr);
    sa.sa_handler = on_alarm; sigaction(SIGALRM, &sa, nullptr);
    if (watchdog_s > 0) alarm(watchdog_s);
}

// ------------------------------------------------------------------ scheduler
int sim_cur_pid() { Task* t = tl_task; return t ? t->pid : R.ctrl_pid; }
int sim_cur_tid() { Task* t = tl_task; return t ? t->tid : -1; }

static void record_decision(Task* t, int y, int k, int to) {
    J d = J::arr(); d.push(t->tid); d.push(t->cur_op); d.push(y); d.push(to);
    R.trace.push(d);
    char b[64]; snprintf(b, sizeof b, "sw:%d:%d:%d:%d:%d", t->tid, t->cur_op, y, k, to);
    hist_hash_only(b);
}

static void switch_to(Task* self, Task* next) {
    if (next == self) return;
    R.cur = next->tid;
    sem_post(&next->sem);
    if (self && self->st != T_DONE) {
        while (sem_wait(&self->sem) != 0) {}
    }
}

static int guided_lookup(Task* t, int y) {
    auto it = R.guide.find(std::make_tuple(t->tid, t->cur_op, y));
    return it == R.guide.end() ? -2 : it->second;
}

void sim_yield(YKind k) {
    Task* t = tl_task;
    if (!t || !R.sched_on) return;
    if (++R.steps > R.step_budget) sim_die(98, "step budget exceeded (livelock or hang)");
    int y = t->yord++;
    if (k == Y_MUTEX) {
        t->ymutex_seen++;
        if (t->ymutex.size() < 96) t->ymutex.push_back(y);
        else { t->ymutex_lcg = t->ymutex_lcg * 6364136223846793005ull + 1442695040888963407ull; uint64_t j = (t->ymutex_lcg >> 33) % t->ymutex_seen; if (j < 96) t->ymutex[j] = y; }
    }
    if (R.tasks.size() < 2) return;
    if (k == Y_CALL && t->ret_yield) {
        R.call_yields++;      // counts RETURNED calls
        Task* woken = nullptr;
        for (auto* o : R.tasks) if (o->st == T_BLOCKED && o->parked_until >= 0 && R.call_yields >= o->parked_until) { o->st = T_RUNNABLE; o->parked_until = -1; o->waiting_on = nullptr; if (!woken) woken = o; }
        // a long pre-emption ends exactly here: the parked task continues at once (otherwise the others would run on for as long as the base policy lets them)
        if (woken && !R.guided && woken != t) { record_decision(t, y, k, woken->tid); R.switches[k]++; switch_to(t, woken); return; }
    }
    for (auto& pk : R.parks) if (pk.tid == t->tid && pk.op == t->cur_op && pk.y == y) {
        bool other = false; for (auto* o : R.tasks) if (o != t && o->st == T_RUNNABLE) other = true;
        if (!other) break;
        R.switches[0]++; hist_hash_only("park");
        t->parked_until = R.call_yields + pk.n;
        sim_block_on(&R.parks, "park");
        return;
    }
    if (R.guided) {
        int to = guided_lookup(t, y);
        if (to >= 0 && to != t->tid && to < (int)R.tasks.size() && R.tasks[to]->st == T_RUNNABLE) {
            record_decision(t, y, k, to); R.switches[k]++;
            switch_to(t, R.tasks[to]);
        }
        return;
    }
    bool consider = false;
    if (k == Y_EDGE) consider = true;
    else if (R.policy == "call") consider = (k == Y_CALL) && !t->in_act;
    else if (R.policy == "io" || R.policy == "edge") consider = true;
    if (!consider) return;
    if (k != Y_EDGE && R.rng.unit() >= R.switch_p) return;
    std::vector<Task*> cand;
    for (auto* o : R.tasks) if (o != t && o->st == T_RUNNABLE) cand.push_back(o);
    if (cand.empty()) return;
    Task* n = cand[R.rng.below(cand.size())];
    record_decision(t, y, k, n->tid); R.switches[k]++;
    switch_to(t, n);
}

// current task cannot continue (blocked or done): somebody else must run
static Task* pick_forced(Task* t) {
    std::vector<Task*> cand;
    bool alldone = true;
    for (auto* o : R.tasks) { if (o->st == T_RUNNABLE && o != t) cand.push_back(o); if (o->st != T_DONE) alldone = false; }
    if (cand.empty()) {
        // nobody else can run: parked tasks come back early
        for (auto* o : R.tasks) if (o != t && o->st == T_BLOCKED && o->parked_until >= 0) { o->st = T_RUNNABLE; o->parked_until = -1; o->waiting_on = nullptr; cand.push_back(o); }
    }
    if (cand.empty()) {
        if (alldone) return nullptr;
        // deadlock: every unfinished task is blocked
        J d = J::obj(); J w = J::arr();
        for (auto* o : R.tasks) if (o->st == T_BLOCKED) { J x = J::obj(); x.set("tid", o->tid); x.set("op", o->cur_op); x.set("on", o->waiting_kind); w.push(x); }
        d.set("waiting", w); hist_mon("deadlock", d);
        sim_die(97, "deadlock");
    }
    int y = t->yord++;
    Task* n = nullptr;
    if (R.guided) {
        int to = guided_lookup(t, y);
        for (auto* c : cand) if (c->tid == to) n = c;
        if (!n) n = cand[0];
    } else n = cand[R.rng.below(cand.size())];
    record_decision(t, y, 0, n->tid); R.switches[0]++;
    return n;
}

void sim_block_on(const void* res, const char* kind) {
    Task* t = tl_task;
    if (!t || !R.sched_on) { J d = J::obj(); d.set("on", kind); hist_mon("deadlock", d); sim_die(97, "blocked with no scheduler"); }
    if (++R.steps > R.step_budget) sim_die(98, "step budget exceeded (livelock or hang)");
    t->st = T_BLOCKED; t->waiting_on = res; t->waiting_kind = kind;
    Task* n = pick_forced(t);
    switch_to(t, n);
    // woken + scheduled again
}

void sim_wake_all(const void* res) {
    for (auto* o : R.tasks) if (o->st == T_BLOCKED && o->waiting_on == res) { o->st = T_RUNNABLE; o->waiting_on = nullptr; }
}

void task_finished(Task* t) {
    t->st = T_DONE;
    Task* n = pick_forced(t);
    if (n) { R.cur = n->tid; sem_post(&n->sem); }
    else sem_post(&R.done_sem);
}

void task_begin_op(Task* t, int op) {
    t->cur_op = op; t->yord = 0; t->fs_nth.clear(); t->wmax_nth = -1; t->wmax_size = 0; t->ymutex.clear(); t->ymutex_seen = 0; t->ymutex_lcg = 1; t->op_edge0 = t->edges; t->next_pre = 0;
    while (t->pre_i < t->preempts.size() && t->preempts[t->pre_i].first < op) t->pre_i++;
    if (t->pre_i < t->preempts.size() && t->preempts[t->pre_i].first == op) t->next_pre = t->op_edge0 + t->preempts[t->pre_i].second + 1;
}

extern "C" void __sanitizer_cov_trace_pc() {
    Task* t = tl_task;
    if (!t) return;
    uintptr_t pc = (uintptr_t)__builtin_return_address(0);
    uint32_t hsh = (uint32_t)((pc >> 1) ^ (pc >> 17)) & ((1u << 19) - 1);
    g_cov[hsh >> 3] |= (unsigned char)(1u << (hsh & 7));
    uint64_t e = ++t->edges;
    if (t->next_pre && e >= t->next_pre) {
        t->pre_i++; t->next_pre = 0;
        if (t->pre_i < t->preempts.size() && t->preempts[t->pre_i].first == t->cur_op) t->next_pre = t->op_edge0 + t->preempts[t->pre_i].second + 1;
        sim_yield(Y_EDGE);
    }
}

// ------------------------------------------------------------------ simulator mutexes (PKCS#11 callbacks and wrapped pthread mutexes)
static int g_mutex_ids = 0;
void* sim_mutex_create() { SimMutex* m = new SimMutex; m->id = ++g_mutex_ids; R.mutex_created++; return m; }
void sim_mutex_destroy(void* p) {
    SimMutex* m = (SimMutex*)p;
    if (m->destroyed) { J d = J::obj(); d.set("what", "double destroy"); d.set("id", m->id); hist_mon("mutex_discipline", d); return; }
    if (m->owner != -1) { J d = J::obj(); d.set("what", "destroy of a locked mutex"); d.set("id", m->id); hist_mon("mutex_discipline", d); }
    m->destroyed = true;   // never freed: a later use is detected, not a crash of the harness
}
void sim_mutex_lock(void* p) {
    SimMutex* m = (SimMutex*)p;
    int me = sim_cur_tid();
    if (m->destroyed) { J d = J::obj(); d.set("what", "lock of a destroyed mutex"); d.set("id", m->id); hist_mon("mutex_discipline", d); }
    sim_yield(Y_MUTEX);
    while (m->owner != -1) {
        if (m->owner == me) { J d = J::obj(); d.set("what", "relock by owner"); d.set("id", m->id); hist_mon("deadlock", d); sim_die(97, "self deadlock on mutex"); }
        R.mutex_blocked++;
        sim_block_on(m, "mutex");
    }
    m->owner = me; R.mutex_locks++;
}
void sim_mutex_unlock(void* p) {
    SimMutex* m = (SimMutex*)p;
    int me = sim_cur_tid();
    if (m->owner != me) { J d = J::obj(); d.set("what", m->owner == -1 ? "unlock of an unlocked mutex" : "unlock by non-owner"); d.set("id", m->id); hist_mon("mutex_discipline", d); }
    m->owner = -1;
    sim_wake_all(m);
    sim_yield(Y_MUTEX);
}

// ------------------------------------------------------------------ RNG seam
static Prng g_rand;
std::vector<std::string>* g_rng_capture = nullptr;
static int rm_bytes(unsigned char* buf, int n) {
    for (int k = 0; k < n;) { uint64_t v = g_rand.next(); for (int j = 0; j < 8 && k < n; j++, k++) buf[k] = (unsigned char)(v >> (8 * j)); }
    if (g_rng_capture && n >= 8) g_rng_capture->push_back(std::string((char*)buf, n));
    R.rng_draws++;
    return 1;
}
extern "C" void sim_rng_bytes(unsigned char* buf, size_t n) { rm_bytes(buf, (int)n); }     // the seam of the botan variant (sim/alt/BotanRNG.cpp)
#ifndef SIM_BOTAN
static int rm_seed(const void*, int) { return 1; }
static int rm_add(const void*, int, double) { return 1; }
static int rm_status(void) { return 1; }
static void rm_cleanup(void) {}
static RAND_METHOD g_meth = {rm_seed, rm_bytes, rm_cleanup, rm_add, rm_bytes, rm_status};
void rng_install(uint64_t seed) { g_rand.seed(seed); RAND_set_rand_method(&g_meth); }
#else
void rng_install(uint64_t seed) { g_rand.seed(seed); }
#endif
void rng_reseed(uint64_t seed) { g_rand.seed(seed); }
