// Replacement of /repo/src/lib/crypto/BotanRNG.cpp in the `botan` verification variant (DESIGN 10.7): the class interface is the repo's own
// (BotanRNG.h); the generator behind it is the simulator's seeded PRNG instead of Botan::AutoSeeded_RNG, so that one seed is one execution.
// This file is compiled INTO each library copy; sim_rng_bytes() lives in the harness (sched.cpp).
#include "config.h"
#include "BotanRNG.h"
#include <botan/rng.h>

extern "C" void sim_rng_bytes(unsigned char* buf, size_t n);

namespace {
class SimBotanRNG : public Botan::RandomNumberGenerator
{
public:
	void randomize(uint8_t output[], size_t length) override { if (length) sim_rng_bytes(output, length); }
	bool accepts_input() const override { return true; }
	void add_entropy(const uint8_t[], size_t) override {}
	std::string name() const override { return "p11sim"; }
	void clear() override {}
	bool is_seeded() const override { return true; }
};
}

BotanRNG::BotanRNG()
{
	rng = new SimBotanRNG();
}

BotanRNG::~BotanRNG()
{
	delete rng;
}

bool BotanRNG::generateRandom(ByteString& data, const size_t len)
{
	data.wipe(len);

	if (len > 0)
		rng->randomize(&data[0], len);

	return true;
}

void BotanRNG::seed(ByteString& seedData)
{
	rng->add_entropy(seedData.byte_str(), seedData.size());
}

Botan::RandomNumberGenerator* BotanRNG::getRNG()
{
	return rng;
}
