// Plan interpreter and PKCS#11 call layer.
#include "sim.hpp"
#include "run.hpp"
#include "cryptoki.h"
#include <unistd.h>
#include <algorithm>
#include <functional>

extern "C" {
CK_RV p1_C_GetFunctionList(CK_FUNCTION_LIST_PTR_PTR);
CK_RV p2_C_GetFunctionList(CK_FUNCTION_LIST_PTR_PTR);
CK_RV p3_C_GetFunctionList(CK_FUNCTION_LIST_PTR_PTR);
}

struct Proc {
    int pid = 0; int copy = 0; CK_FUNCTION_LIST_PTR fl = nullptr; bool inited = false;
    std::string locking = "none";
    std::map<std::string, CK_ULONG> refs;              // S*, O*, T*, FREE
    std::vector<CK_ULONG> sess_issued, obj_issued;     // every handle this instance handed out (in order, unique)
};
static std::map<int, Proc> g_procs;
static std::map<std::string, std::string> g_objfile;   // object ref -> path of its file
static std::map<std::string, std::string> g_tokdir;    // token ref -> directory
static J g_plan;
static const unsigned char CANARY = 0xA5;

CK_FUNCTION_LIST_PTR copy_fl(int copy) {
    CK_FUNCTION_LIST_PTR fl = nullptr;
    if (copy == 1) p1_C_GetFunctionList(&fl);
    else if (copy == 2) p2_C_GetFunctionList(&fl);
    else p3_C_GetFunctionList(&fl);
    return fl;
}

static Proc& proc_of(int pid) {
    auto it = g_procs.find(pid);
    if (it == g_procs.end()) { Proc p; p.pid = pid; p.copy = pid; p.fl = copy_fl(pid); g_procs[pid] = p; return g_procs[pid]; }
    return it->second;
}

// ---------------------------------------------------------------- mutex callbacks
static CK_RV cb_create(void** m) { *m = sim_mutex_create(); return CKR_OK; }
static CK_RV cb_destroy(void* m) { sim_mutex_destroy(m); return CKR_OK; }
static CK_RV cb_lock(void* m) { sim_mutex_lock(m); return CKR_OK; }
static CK_RV cb_unlock(void* m) { sim_mutex_unlock(m); return CKR_OK; }

// ---------------------------------------------------------------- helpers
struct Buf {   // exact-size heap block so that ASan sees any overrun; canary-filled
    unsigned char* p = nullptr; size_t cap = 0; bool isnull = true;
    void alloc(size_t n) { p = (unsigned char*)malloc(n ? n : 1); cap = n; isnull = false; memset(p, CANARY, n ? n : 1); }
    size_t touched() const { size_t k = cap; while (k > 0 && p[k - 1] == CANARY) k--; return k; }
    ~Buf() { free(p); }
};

struct Tmpl {
    std::vector<CK_ATTRIBUTE> a;
    std::vector<std::unique_ptr<std::string>> store;
    std::vector<std::unique_ptr<Tmpl>> nested;
    void build(const J& t) {
        for (size_t k = 0; k < t.size(); k++) {
            const J& e = t.at(k);
            CK_ATTRIBUTE at; at.type = (CK_ATTRIBUTE_TYPE)(uint64_t)e.at(0).num(); at.pValue = nullptr; at.ulValueLen = 0;
            const std::string kind = e.at(1).str();
            if (kind == "x") {
                store.emplace_back(new std::string(fromhex(e.at(2).str())));
                std::string& s = *store.back();
                // exact-size copy on the heap for ASan
                if (s.empty()) { at.pValue = nullptr; at.ulValueLen = 0; if (e.size() > 3 && e.at(3).boolean()) { at.pValue = (void*)""; } }
                else { at.pValue = (void*)s.data(); at.ulValueLen = s.size(); }
            } else if (kind == "n") { at.pValue = nullptr; at.ulValueLen = (CK_ULONG)e.at(2).num(); }
            else if (kind == "t") {
                nested.emplace_back(new Tmpl); nested.back()->build(e.at(2));
                at.pValue = nested.back()->a.empty() ? nullptr : nested.back()->a.data();
                at.ulValueLen = nested.back()->a.size() * sizeof(CK_ATTRIBUTE);
            }
            a.push_back(at);
        }
    }
    CK_ATTRIBUTE_PTR ptr() { return a.empty() ? nullptr : a.data(); }
    CK_ULONG n() { return a.size(); }
};

struct Mech {
    CK_MECHANISM m; std::string p; std::vector<std::unique_ptr<std::string>> store; bool isnull = false;
};

struct Ctx { Task* t; Proc* P; std::map<std::string, std::string>* saved; };

static CK_ULONG resolve(Ctx& c, const J& v, bool* unres = nullptr) {
    if (v.t == J::NUM) return (CK_ULONG)(uint64_t)v.num();
    if (v.t == J::STR) {
        auto it = c.P->refs.find(v.str());
        if (it != c.P->refs.end()) return it->second;
    }
    if (unres) *unres = true;
    return 0;
}

static void build_mech(Ctx& c, const J& jm, Mech& M) {
    if (jm.isnull()) { M.isnull = true; return; }
    M.m.mechanism = (CK_MECHANISM_TYPE)(uint64_t)jm["m"].num();
    M.p = fromhex(jm["p"].str());
    const J& ptrs = jm["ptrs"];
    for (size_t k = 0; k < ptrs.size(); k++) {
        size_t off = ptrs.at(k).at(0).num();
        M.store.emplace_back(new std::string(fromhex(ptrs.at(k).at(1).str())));
        void* ptr = M.store.back()->empty() ? nullptr : (void*)M.store.back()->data();
        if (off + 8 <= M.p.size()) memcpy(&M.p[off], &ptr, 8);
    }
    const J& hr = jm["href"];
    for (size_t k = 0; k < hr.size(); k++) {
        size_t off = hr.at(k).at(0).num();
        CK_ULONG h = resolve(c, hr.at(k).at(1));
        if (off + 8 <= M.p.size()) memcpy(&M.p[off], &h, 8);
    }
    M.m.pParameter = M.p.empty() ? nullptr : (void*)M.p.data();
    M.m.ulParameterLen = jm.has("plen") ? (CK_ULONG)jm["plen"].num() : M.p.size();
}

static std::string get_in(Ctx& c, const J& v) {
    if (v.t == J::STR) return fromhex(v.str());
    if (v.t == J::OBJ && v.has("from")) { auto it = c.saved->find(v["from"].str()); std::string s = it == c.saved->end() ? std::string() : it->second;
        if (v.has("flip") && !s.empty()) { size_t bit = v["flip"].num() % (s.size() * 8); s[bit / 8] ^= (char)(1 << (bit % 8)); }
        if (v.has("trunc")) { size_t n = v["trunc"].num(); if (n < s.size()) s.resize(n); }
        if (v.has("off")) { size_t o = v["off"].num(); size_t n = v.has("n") ? (size_t)v["n"].num() : std::string::npos; s = o < s.size() ? s.substr(o, n) : std::string(); }
        return s; }
    return std::string();
}

static void note_issued(std::vector<CK_ULONG>& v, CK_ULONG h) { if (std::find(v.begin(), v.end(), h) == v.end()) v.push_back(h); }

#define CALL(expr) do { sim_yield(Y_CALL); c.t->in_call = true; rv = (expr); c.t->in_call = false; c.t->ret_yield = true; sim_yield(Y_CALL); c.t->ret_yield = false; } while (0)

static std::string label_to_ref(const std::string& label) {
    // object labels carry the harness tag as "o<digits>" prefix; token labels as "T<digits>"
    if (label.size() >= 2 && (label[0] == 'o' || label[0] == 'T')) {
        size_t k = 1; while (k < label.size() && isdigit((unsigned char)label[k])) k++;
        if (k > 1) return std::string(label[0] == 'o' ? "O" : "T") + label.substr(1, k - 1);
    }
    return "";
}

static J read_attr(Ctx& c, CK_SESSION_HANDLE hs, CK_OBJECT_HANDLE ho, CK_ATTRIBUTE_TYPE type) {
    // size query, then fetch with an exact-size buffer
    CK_RV rv; CK_ATTRIBUTE at = {type, nullptr, 0};
    CALL(c.P->fl->C_GetAttributeValue(hs, ho, &at, 1));
    if (rv != CKR_OK) { J e = J::obj(); e.set("rv", (long)rv); if (at.ulValueLen != CK_UNAVAILABLE_INFORMATION) e.set("len", (long)at.ulValueLen); return e; }
    if (at.ulValueLen == CK_UNAVAILABLE_INFORMATION) { J e = J::obj(); e.set("rv", 0); e.set("len", -1); return e; }
    if (type == CKA_WRAP_TEMPLATE || type == CKA_UNWRAP_TEMPLATE || type == CKA_DERIVE_TEMPLATE) {
        // nested template: array of CK_ATTRIBUTE; first types+sizes (all pValue NULL), then the values
        size_t n = at.ulValueLen / sizeof(CK_ATTRIBUTE);
        J e = J::obj(); e.set("n", (long)n);
        if (n == 0) { e.set("t", J::arr()); return e; }
        Buf arr; arr.alloc(n * sizeof(CK_ATTRIBUTE)); memset(arr.p, 0, n * sizeof(CK_ATTRIBUTE));
        CK_ATTRIBUTE_PTR inner = (CK_ATTRIBUTE_PTR)arr.p;
        at.pValue = inner; at.ulValueLen = n * sizeof(CK_ATTRIBUTE);
        CALL(c.P->fl->C_GetAttributeValue(hs, ho, &at, 1));
        if (rv != CKR_OK) { e.set("rv", (long)rv); e.set("phase", 2); return e; }
        std::vector<std::unique_ptr<Buf>> bufs;
        for (size_t k = 0; k < n; k++) { bufs.emplace_back(new Buf); size_t l = inner[k].ulValueLen == CK_UNAVAILABLE_INFORMATION ? 0 : inner[k].ulValueLen; if (l > (1u << 20)) l = 0; bufs.back()->alloc(l); inner[k].pValue = bufs.back()->p; inner[k].ulValueLen = l; }
        at.pValue = inner; at.ulValueLen = n * sizeof(CK_ATTRIBUTE);
        CALL(c.P->fl->C_GetAttributeValue(hs, ho, &at, 1));
        if (rv != CKR_OK) { e.set("rv", (long)rv); e.set("phase", 3); return e; }
        J t = J::arr();
        for (size_t k = 0; k < n; k++) { J x = J::arr(); x.push((long)inner[k].type); size_t l = inner[k].ulValueLen == CK_UNAVAILABLE_INFORMATION ? 0 : std::min<size_t>(inner[k].ulValueLen, bufs[k]->cap); x.push(tohex(bufs[k]->p, l)); t.push(x); }
        e.set("t", t);
        return e;
    }
    for (int attempt = 0; ; attempt++) {
        Buf b; b.alloc(at.ulValueLen); at.pValue = b.p;
        CK_ULONG qlen = at.ulValueLen;
        CALL(c.P->fl->C_GetAttributeValue(hs, ho, &at, 1));
        if (rv == CKR_BUFFER_TOO_SMALL && attempt < 4) {
            // the value grew between the size query and the fetch (another party wrote it): ask for the size again
            at.pValue = nullptr; at.ulValueLen = 0;
            CALL(c.P->fl->C_GetAttributeValue(hs, ho, &at, 1));
            if (rv == CKR_OK && at.ulValueLen != CK_UNAVAILABLE_INFORMATION) continue;
            J e = J::obj(); e.set("rv", (long)rv); e.set("phase", 4); return e;
        }
        if (rv != CKR_OK) { J e = J::obj(); e.set("rv", (long)rv); e.set("phase", 2); return e; }
        J e = J::obj(); e.set("v", tohex(b.p, std::min<size_t>(at.ulValueLen, b.cap)));
        if (at.ulValueLen != qlen) e.set("qlen", (long)qlen);
        return e;
    }
}

static std::string read_label(Ctx& c, CK_SESSION_HANDLE hs, CK_OBJECT_HANDLE ho, CK_RV* prv = nullptr) {
    J r = read_attr(c, hs, ho, CKA_LABEL);
    if (prv) *prv = r.has("rv") ? (CK_RV)r["rv"].num() : CKR_OK;
    if (!r.has("v")) return "";
    return fromhex(r["v"].str());
}

static J tok_info_json(const CK_TOKEN_INFO& ti) {
    J o = J::obj();
    o.set("label", tohex(ti.label, 32)); o.set("serial", std::string((const char*)ti.serialNumber, 16));
    o.set("flags", (long)ti.flags); o.set("sessions", (long)ti.ulSessionCount); o.set("rw_sessions", (long)ti.ulRwSessionCount);
    o.set("maxpin", (long)ti.ulMaxPinLen); o.set("minpin", (long)ti.ulMinPinLen);
    o.set("model", tohex(ti.model, 16)); o.set("manuf", tohex(ti.manufacturerID, 32)); o.set("utc", tohex(ti.utcTime, 16));
    return o;
}

static J scan_slots(Ctx& c) {
    // what every application does after C_Initialize: list the slots and read the token info
    CK_RV rv; CK_ULONG n = 0; J out = J::obj();
    CALL(c.P->fl->C_GetSlotList(CK_FALSE, nullptr, &n));
    out.set("rv", (long)rv);
    if (rv != CKR_OK) return out;
    std::vector<CK_SLOT_ID> ids(n + 4); CK_ULONG n2 = n + 4;
    CALL(c.P->fl->C_GetSlotList(CK_FALSE, ids.data(), &n2));
    if (rv != CKR_OK) { out.set("rv", (long)rv); return out; }
    J slots = J::arr();
    for (auto it = c.P->refs.begin(); it != c.P->refs.end();) { if (it->first[0] == 'T' || it->first == "FREE") it = c.P->refs.erase(it); else ++it; }
    for (CK_ULONG k = 0; k < n2; k++) {
        CK_TOKEN_INFO ti; memset(&ti, 0, sizeof ti);
        CALL(c.P->fl->C_GetTokenInfo(ids[k], &ti));
        J s = J::obj(); s.set("slot", (long)ids[k]); s.set("rv", (long)rv);
        if (rv == CKR_OK) {
            J tj = tok_info_json(ti); for (auto& kv : tj.o) s.set(kv.first, kv.second);
            std::string label((const char*)ti.label, 32);
            if (ti.flags & CKF_TOKEN_INITIALIZED) { std::string ref = label_to_ref(label); if (!ref.empty() && !c.P->refs.count(ref)) { c.P->refs[ref] = ids[k]; s.set("ref", ref); } }
            else if (!c.P->refs.count("FREE")) { c.P->refs["FREE"] = ids[k]; s.set("ref", "FREE"); }
        }
        slots.push(s);
    }
    out.set("slots", slots);
    return out;
}

static CK_RV do_initialize(Ctx& c, const std::string& locking) {
    CK_RV rv; CK_C_INITIALIZE_ARGS args; memset(&args, 0, sizeof args);
    c.P->locking = locking;
    if (locking == "callbacks") { args.CreateMutex = cb_create; args.DestroyMutex = cb_destroy; args.LockMutex = cb_lock; args.UnlockMutex = cb_unlock; }
    else if (locking == "callbacks_os") { args.CreateMutex = cb_create; args.DestroyMutex = cb_destroy; args.LockMutex = cb_lock; args.UnlockMutex = cb_unlock; args.flags = CKF_OS_LOCKING_OK; }
    else if (locking == "os") { args.flags = CKF_OS_LOCKING_OK; }
    if (locking == "null") CALL(c.P->fl->C_Initialize(nullptr));
    else CALL(c.P->fl->C_Initialize(&args));
    if (rv == CKR_OK) { c.P->inited = true; c.P->sess_issued.clear(); c.P->obj_issued.clear();
        for (auto it = c.P->refs.begin(); it != c.P->refs.end();) { if (it->first[0] == 'S' || it->first[0] == 'O') it = c.P->refs.erase(it); else ++it; } }
    return rv;
}

static J find_all(Ctx& c, CK_SESSION_HANDLE hs, Tmpl& tm, const J& batches, bool ident, std::vector<CK_OBJECT_HANDLE>* out_handles) {
    CK_RV rv; J out = J::obj();
    CALL(c.P->fl->C_FindObjectsInit(hs, tm.ptr(), tm.n()));
    out.set("rv", (long)rv);
    if (rv != CKR_OK) return out;
    J bs = J::arr(); std::vector<CK_OBJECT_HANDLE> all;
    size_t bi = 0; int guard = 0; bool exhausted = false; int post = 0;
    for (;;) {
        bool listed = bi < batches.size();
        CK_ULONG want = listed ? (CK_ULONG)batches.at(bi).num() : 16;
        bi++;
        bool was_exhausted = exhausted;
        Buf b; b.alloc(want * sizeof(CK_OBJECT_HANDLE)); CK_ULONG got = 0;
        CALL(c.P->fl->C_FindObjects(hs, (CK_OBJECT_HANDLE_PTR)b.p, want, &got));
        J bj = J::obj(); bj.set("max", (long)want); bj.set("rv", (long)rv); bj.set("n", (long)got);
        J hs_ = J::arr();
        if (rv == CKR_OK) for (CK_ULONG k = 0; k < got && k < want; k++) { CK_OBJECT_HANDLE h = ((CK_OBJECT_HANDLE*)b.p)[k]; all.push_back(h); hs_.push((long)h); note_issued(c.P->obj_issued, h); }
        bj.set("h", hs_); bs.push(bj);
        if (rv != CKR_OK) break;
        if (++guard > 300) break;
        if (was_exhausted) post++;
        if (want > 0 && got < want) exhausted = true;
        if (bi >= batches.size() && exhausted && post >= 1) break;   // one call after exhaustion: must return nothing
    }
    out.set("batches", bs);
    CALL(c.P->fl->C_FindObjectsFinal(hs));
    out.set("final_rv", (long)rv);
    if (ident) {
        J ids = J::arr();
        for (auto h : all) { CK_RV lrv; std::string lab = read_label(c, hs, h, &lrv); std::string ref = label_to_ref(lab);
            J e = J::obj(); e.set("h", (long)h); if (lrv != CKR_OK) e.set("rv", (long)lrv); else e.set("label", lab);
            if (!ref.empty()) { e.set("ref", ref); c.P->refs[ref] = h; }
            ids.push(e); }
        out.set("ids", ids);
    }
    if (out_handles) *out_handles = all;
    return out;
}

static std::string resolve_path(const std::string& sel) {
    if (sel.rfind("@obj:", 0) == 0) { auto it = g_objfile.find(sel.substr(5)); return it == g_objfile.end() ? "" : it->second; }
    if (sel.rfind("@lock:", 0) == 0) { auto it = g_objfile.find(sel.substr(6)); if (it == g_objfile.end()) return ""; std::string p = it->second; return p.substr(0, p.size() - 7) + ".lock"; }
    if (sel.rfind("@tok:", 0) == 0) { auto it = g_tokdir.find(sel.substr(5)); return it == g_tokdir.end() ? "" : it->second + "/token.object"; }
    if (sel.rfind("@toklock:", 0) == 0) { auto it = g_tokdir.find(sel.substr(9)); return it == g_tokdir.end() ? "" : it->second + "/token.lock"; }
    if (sel.rfind("@tokdir:", 0) == 0) { auto it = g_tokdir.find(sel.substr(8)); return it == g_tokdir.end() ? "" : it->second; }
    if (sel == "@conf") return "/sim/softhsm2.conf";
    if (sel.rfind("@newfile:", 0) == 0) { size_t c2 = sel.find(':', 9); if (c2 == std::string::npos) return ""; auto it = g_tokdir.find(sel.substr(9, c2 - 9)); return it == g_tokdir.end() ? "" : it->second + "/" + sel.substr(c2 + 1); }
    return sel;
}

static void learn_files(const std::string& ref, const std::vector<std::string>& created, bool token_ref) {
    for (auto& p : created) {
        if (token_ref) { size_t k = p.rfind("/token.object"); if (k != std::string::npos && k + 13 == p.size()) g_tokdir[ref] = p.substr(0, k); }
        else if (p.size() > 7 && p.compare(p.size() - 7, 7, ".object") == 0 && p.find("/token.object") == std::string::npos) g_objfile[ref] = p;
    }
}

// list of files created since a mark in the history ("created" monitor events are written by simfs)
static std::vector<std::string> g_created_log;
void exec_note_created(const std::string& path) { g_created_log.push_back(path); }

static J do_corrupt(const J& op) {
    J out = J::obj();
    std::string path = resolve_path(op["path"].str());
    out.set("path", path);
    const J& how = op["how"]; std::string k = how["k"].str();
    if (path.empty()) { out.set("skipped", "unresolved"); return out; }
    if (k == "noop") { out.set("done", false); return out; }
    if (k == "write") { g_fs.put_file(path, fromhex(how["hex"].str()), (mode_t)strtol(how["mode"].str("0600").c_str(), nullptr, 8)); out.set("done", true); return out; }
    if (k == "mkdir") { g_fs.mkdirs(path, 0700); out.set("done", true); return out; }        // a DIRECTORY where the library expects a file (e.g. "<uuid>.object/")
    InodeP par; std::string leaf; InodeP f = g_fs.lookup(path, &par, &leaf);
    if (!f || f->isdir) { out.set("skipped", "missing"); return out; }
    std::string d = f->data ? *f->data : std::string();
    out.set("size", (long)d.size());
    auto offn = [&](const J& o, size_t span) -> size_t { long v = o.num(); size_t sz = d.size(); if (sz < span) return 0; if (v < 0) { v = (long)sz + v; if (v < 0) v = 0; } return (size_t)v % (sz - span + 1); };
    if (k == "flip") { if (!d.empty()) { size_t o = offn(how["off"], 1); d[o] ^= (char)(1 << (how["bit"].num() & 7)); out.set("off", (long)o); } }
    else if (k == "set") { std::string v = fromhex(how["hex"].str()); if (d.size() >= v.size()) { size_t o = offn(how["off"], v.size()); memcpy(&d[o], v.data(), v.size()); out.set("off", (long)o); } }
    else if (k == "trunc") { size_t n = d.empty() ? 0 : (size_t)how["len"].num() % (d.size() + 1); d.resize(n); out.set("len", (long)n); }
    else if (k == "append") { d += fromhex(how["hex"].str()); }
    else if (k == "replace") { d = fromhex(how["hex"].str()); }
    else if (k == "delete") { par->ents.erase(leaf); par->order.erase(std::remove(par->order.begin(), par->order.end(), leaf), par->order.end()); out.set("done", true); return out; }
    else if (k == "swap") { std::string p2 = resolve_path(how["with"].str()); InodeP g = g_fs.lookup(p2); if (g && !g->isdir) { d = g->data ? *g->data : std::string(); } else { out.set("skipped", "swap-missing"); return out; } }
    else if (k == "field") {
        // overwrite the i-th 8-byte big-endian field boundary found by walking the object format
        // (Python gives an absolute offset computed modulo size; executor just writes 8 bytes)
        std::string v = fromhex(how["hex"].str()); if (d.size() >= 8 && v.size() == 8) { size_t o = offn(how["off"], 8); memcpy(&d[o], v.data(), 8); out.set("off", (long)o); }
    }
    else if (k == "retype") {
        // structure-aware: walk the object file (generation, then type|kind|value records) and replace kind+value of the i-th attribute by the given kind and
        // the given well-formed value encoding, so that the file still parses and the stored KIND disagrees with what the attribute TYPE is defined to hold
        auto be = [&](size_t o) -> uint64_t { uint64_t v = 0; for (int i = 0; i < 8; i++) v = (v << 8) | (unsigned char)d[o + i]; return v; };
        std::vector<std::pair<size_t, size_t>> recs; size_t pos = 8; bool okw = d.size() >= 8;
        while (okw && pos + 16 <= d.size()) {
            uint64_t kind = be(pos + 8); size_t v = pos + 16, len = 0;
            if (kind == 1) len = 1; else if (kind == 2) len = 8;
            else if (kind == 3 || kind == 4) { if (v + 8 > d.size()) { okw = false; break; } uint64_t n = be(v); if (n > d.size()) { okw = false; break; } len = 8 + (size_t)n; }
            else if (kind == 5) { if (v + 8 > d.size()) { okw = false; break; } uint64_t n = be(v); if (n > d.size() / 8) { okw = false; break; } len = 8 + 8 * (size_t)n; }
            else { okw = false; break; }
            if (v + len > d.size()) { okw = false; break; }
            recs.push_back({pos + 8, v + len}); pos = v + len;
        }
        if (recs.empty()) { out.set("skipped", "retype-unparsed"); return out; }
        size_t i = (size_t)how["index"].num() % recs.size();
        std::string rep(8, '\0'); uint64_t nk = (uint64_t)how["kind"].num(); for (int b = 0; b < 8; b++) rep[7 - b] = (char)((nk >> (8 * b)) & 0xff);
        rep += fromhex(how["enc"].str());
        out.set("attr", (long)be(recs[i].first - 8)); out.set("oldkind", (long)be(recs[i].first)); out.set("nattrs", (long)recs.size());
        d = d.substr(0, recs[i].first) + rep + d.substr(recs[i].second);
    }
    f->data = std::make_shared<std::string>(d);
    out.set("done", true);
    return out;
}

// ---------------------------------------------------------------- one op
static J exec_op(Ctx& c, const J& op);

static void crash_explore(Ctx& c, const J& crash);

static J crypt_generic(Ctx& c, const std::string& f, const J& op, CK_SESSION_HANDLE hs) {
    CK_RV rv = 0; J out = J::obj();
    auto F = c.P->fl;
    // init family
    if (f == "C_EncryptInit" || f == "C_DecryptInit" || f == "C_SignInit" || f == "C_VerifyInit" || f == "C_SignRecoverInit" || f == "C_VerifyRecoverInit") {
        Mech M; build_mech(c, op["mech"], M); bool unres = false; CK_OBJECT_HANDLE hk = resolve(c, op["key"], &unres);
        CK_MECHANISM_PTR mp = M.isnull ? nullptr : &M.m;
        if (f == "C_EncryptInit") CALL(F->C_EncryptInit(hs, mp, hk));
        else if (f == "C_DecryptInit") CALL(F->C_DecryptInit(hs, mp, hk));
        else if (f == "C_SignInit") CALL(F->C_SignInit(hs, mp, hk));
        else if (f == "C_VerifyInit") CALL(F->C_VerifyInit(hs, mp, hk));
        else if (f == "C_SignRecoverInit") CALL(F->C_SignRecoverInit(hs, mp, hk));
        else CALL(F->C_VerifyRecoverInit(hs, mp, hk));
        out.set("rv", (long)rv); out.set("hk", (long)hk); return out;
    }
    if (f == "C_DigestInit") { Mech M; build_mech(c, op["mech"], M); CALL(F->C_DigestInit(hs, M.isnull ? nullptr : &M.m)); out.set("rv", (long)rv); return out; }
    if (f == "C_DigestKey") { CK_OBJECT_HANDLE hk = resolve(c, op["key"]); CALL(F->C_DigestKey(hs, hk)); out.set("rv", (long)rv); out.set("hk", (long)hk); return out; }
    std::string in = get_in(c, op["in"]);
    out.set("inlen", (long)in.size());
    CK_BYTE_PTR inp = in.empty() && !op["in_nonnull"].boolean() ? (op["in"].isnull() ? nullptr : (CK_BYTE_PTR)"") : (CK_BYTE_PTR)in.data();
    // copy input to exact heap block
    Buf ib; if (!op["in"].isnull()) { ib.alloc(in.size()); if (!in.empty()) memcpy(ib.p, in.data(), in.size()); inp = ib.p; }
    if (f == "C_DigestUpdate") { CALL(F->C_DigestUpdate(hs, inp, in.size())); out.set("rv", (long)rv); return out; }
    if (f == "C_SignUpdate") { CALL(F->C_SignUpdate(hs, inp, in.size())); out.set("rv", (long)rv); return out; }
    if (f == "C_VerifyUpdate") { CALL(F->C_VerifyUpdate(hs, inp, in.size())); out.set("rv", (long)rv); return out; }
    if (f == "C_SeedRandom") { CALL(F->C_SeedRandom(hs, inp, in.size())); out.set("rv", (long)rv); return out; }
    if (f == "C_Verify" || f == "C_VerifyFinal") {
        std::string sig = get_in(c, op["sig"]); Buf sb; sb.alloc(sig.size()); if (!sig.empty()) memcpy(sb.p, sig.data(), sig.size());
        if (f == "C_Verify") CALL(F->C_Verify(hs, inp, in.size(), sb.p, sig.size()));
        else CALL(F->C_VerifyFinal(hs, sb.p, sig.size()));
        out.set("rv", (long)rv); return out;
    }
    // calls with an output buffer
    Buf ob; CK_ULONG olen = 0; CK_ULONG* polen = &olen;
    const J& cap = op["outcap"];
    if (cap.t == J::OBJ) {   // {"len": name, "plus": k}: the length a previous call reported (size query / CKR_BUFFER_TOO_SMALL), plus k
        auto it = c.saved->find("len:" + cap["len"].str()); long base = it == c.saved->end() ? 0 : atol(it->second.c_str());
        long n = base + cap["plus"].num(0); if (n < 0) n = 0; if (n > (1 << 22)) n = 1 << 22;
        ob.alloc((size_t)n); olen = (CK_ULONG)n; out.set("cap", n);
    }
    else if (!cap.isnull()) { ob.alloc((size_t)cap.num()); olen = (CK_ULONG)cap.num(); }
    if (op.has("announce")) olen = (CK_ULONG)op["announce"].num();   // must never exceed the real block (generator's duty)
    if (op["lenptr_null"].boolean()) polen = nullptr;
    CK_BYTE_PTR outp = ob.isnull ? nullptr : ob.p;
    if (f == "C_Encrypt") CALL(F->C_Encrypt(hs, inp, in.size(), outp, polen));
    else if (f == "C_EncryptUpdate") CALL(F->C_EncryptUpdate(hs, inp, in.size(), outp, polen));
    else if (f == "C_EncryptFinal") CALL(F->C_EncryptFinal(hs, outp, polen));
    else if (f == "C_Decrypt") CALL(F->C_Decrypt(hs, inp, in.size(), outp, polen));
    else if (f == "C_DecryptUpdate") CALL(F->C_DecryptUpdate(hs, inp, in.size(), outp, polen));
    else if (f == "C_DecryptFinal") CALL(F->C_DecryptFinal(hs, outp, polen));
    else if (f == "C_Digest") CALL(F->C_Digest(hs, inp, in.size(), outp, polen));
    else if (f == "C_DigestFinal") CALL(F->C_DigestFinal(hs, outp, polen));
    else if (f == "C_Sign") CALL(F->C_Sign(hs, inp, in.size(), outp, polen));
    else if (f == "C_SignFinal") CALL(F->C_SignFinal(hs, outp, polen));
    else if (f == "C_SignRecover") CALL(F->C_SignRecover(hs, inp, in.size(), outp, polen));
    else if (f == "C_VerifyRecover") CALL(F->C_VerifyRecover(hs, inp, in.size(), outp, polen));
    else if (f == "C_GenerateRandom") { size_t n = op["len"].num(); Buf rb; rb.alloc(n); CALL(F->C_GenerateRandom(hs, rb.p, n)); out.set("rv", (long)rv); if (rv == CKR_OK) out.set("out", tohex(rb.p, n)); return out; }
    else if (f == "C_DigestEncryptUpdate") CALL(F->C_DigestEncryptUpdate(hs, inp, in.size(), outp, polen));
    else if (f == "C_DecryptDigestUpdate") CALL(F->C_DecryptDigestUpdate(hs, inp, in.size(), outp, polen));
    else if (f == "C_SignEncryptUpdate") CALL(F->C_SignEncryptUpdate(hs, inp, in.size(), outp, polen));
    else if (f == "C_DecryptVerifyUpdate") CALL(F->C_DecryptVerifyUpdate(hs, inp, in.size(), outp, polen));
    else if (f == "C_GetOperationState") CALL(F->C_GetOperationState(hs, outp, polen));
    else { out.set("rv", -1); out.set("unknown", f); return out; }
    out.set("rv", (long)rv); out.set("len", (long)olen);
    if (op.has("savelen") && (rv == CKR_OK || rv == CKR_BUFFER_TOO_SMALL)) (*c.saved)["len:" + op["savelen"].str()] = std::to_string((long)olen);
    if (!ob.isnull) { size_t w = ob.touched(); out.set("touched", (long)w);
        if (rv == CKR_OK) { size_t n = std::min<size_t>(olen, ob.cap); out.set("out", tohex(ob.p, n)); if (op.has("save")) (*c.saved)[op["save"].str()] = std::string((char*)ob.p, n);
            if (op.has("append")) (*c.saved)[op["append"].str()] += std::string((char*)ob.p, n); }
        else if (w) out.set("dirty", tohex(ob.p, w)); }
    return out;
}

static J exec_call(Ctx& c, const J& op) {
    const std::string f = op["f"].str();
    auto F = c.P->fl; CK_RV rv = 0; J out = J::obj();
    bool unres = false;
    size_t created_mark = g_created_log.size();
    std::vector<std::string> rngcap; bool wantrng = op.has("rng");
    if (wantrng) g_rng_capture = &rngcap;
    struct RngOff { ~RngOff() { g_rng_capture = nullptr; } } rngoff;

    auto finish_rng = [&]() {
        if (!wantrng) return;
        J a = J::arr(); size_t mn = op["rng"]["min"].num(8), mx = op["rng"]["max"].num(1 << 20);
        bool first = op["rng"]["first"].boolean(false);
        for (auto& d : rngcap) if (d.size() >= mn && d.size() <= mx) { a.push(tohex(d)); if (op["rng"]["disk"].boolean()) mon_register_disk_secret(d, op["rng"]["label"].str("rng")); if (first) break; }
        out.set("rng", a);
    };
    auto created_files = [&]() { std::vector<std::string> v(g_created_log.begin() + created_mark, g_created_log.end()); return v; };

    if (f == "C_Initialize") { rv = do_initialize(c, op["locking"].str("none")); out.set("rv", (long)rv); return out; }
    if (f == "C_Finalize") { if (op["arg_nonnull"].boolean()) CALL(F->C_Finalize((void*)1)); else CALL(F->C_Finalize(nullptr)); if (rv == CKR_OK) c.P->inited = false; out.set("rv", (long)rv); return out; }
    if (f == "C_GetInfo") { CK_INFO i; memset(&i, 0, sizeof i); CALL(F->C_GetInfo(op["null"].boolean() ? nullptr : &i)); out.set("rv", (long)rv); return out; }
    if (f == "C_GetSlotList") {
        CK_ULONG n = 0; Buf b; const J& cap = op["cap"]; CK_ULONG* pn = op["count_null"].boolean() ? nullptr : &n;
        if (!cap.isnull()) { b.alloc(cap.num() * sizeof(CK_SLOT_ID)); n = cap.num(); }
        CALL(F->C_GetSlotList(op["present"].boolean() ? CK_TRUE : CK_FALSE, b.isnull ? nullptr : (CK_SLOT_ID_PTR)b.p, pn));
        out.set("rv", (long)rv); out.set("n", (long)n);
        if (rv == CKR_OK && !b.isnull) { J a = J::arr(); for (CK_ULONG k = 0; k < n && k < (CK_ULONG)cap.num(); k++) a.push((long)((CK_SLOT_ID*)b.p)[k]); out.set("slots", a); }
        return out;
    }
    if (f == "C_GetSlotInfo") { CK_SLOT_INFO si; memset(&si, 0, sizeof si); CK_SLOT_ID s = resolve(c, op["slot"], &unres); CALL(F->C_GetSlotInfo(s, op["null"].boolean() ? nullptr : &si)); out.set("rv", (long)rv); out.set("flags", (long)si.flags); return out; }
    if (f == "C_GetTokenInfo") { CK_TOKEN_INFO ti; memset(&ti, 0, sizeof ti); CK_SLOT_ID s = resolve(c, op["slot"], &unres); CALL(F->C_GetTokenInfo(s, op["null"].boolean() ? nullptr : &ti)); out.set("rv", (long)rv); out.set("slot", (long)s); if (rv == CKR_OK) out.set("info", tok_info_json(ti)); return out; }
    if (f == "C_GetMechanismList" && op["cap"].t == J::STR && op["cap"].str() == "exact") {
        // the two-call idiom: size query, then a buffer of exactly the announced number of entries (ASan sees every byte beyond it)
        CK_ULONG n = 0; CK_SLOT_ID s = resolve(c, op["slot"], &unres);
        CALL(F->C_GetMechanismList(s, nullptr, &n)); out.set("rv_query", (long)rv); out.set("n_query", (long)n);
        if (rv != CKR_OK || n > 100000) { out.set("rv", (long)rv); return out; }
        Buf b; b.alloc(n * sizeof(CK_MECHANISM_TYPE)); CK_ULONG n2 = n;
        CALL(F->C_GetMechanismList(s, b.isnull ? nullptr : (CK_MECHANISM_TYPE_PTR)b.p, &n2));
        out.set("rv", (long)rv); out.set("n", (long)n2);
        if (rv == CKR_OK) { J a = J::arr(); for (CK_ULONG k = 0; k < n2 && k < n; k++) a.push((long)((CK_MECHANISM_TYPE*)b.p)[k]); out.set("mechs", a); }
        return out;
    }
    if (f == "C_GetMechanismList") {
        CK_ULONG n = 0; Buf b; const J& cap = op["cap"]; CK_SLOT_ID s = resolve(c, op["slot"], &unres);
        if (!cap.isnull()) { b.alloc(cap.num() * sizeof(CK_MECHANISM_TYPE)); n = cap.num(); }
        CALL(F->C_GetMechanismList(s, b.isnull ? nullptr : (CK_MECHANISM_TYPE_PTR)b.p, op["count_null"].boolean() ? nullptr : &n));
        out.set("rv", (long)rv); out.set("n", (long)n);
        if (rv == CKR_OK && !b.isnull) { J a = J::arr(); for (CK_ULONG k = 0; k < n && k < (CK_ULONG)cap.num(); k++) a.push((long)((CK_MECHANISM_TYPE*)b.p)[k]); out.set("mechs", a); }
        return out;
    }
    if (f == "C_GetMechanismInfo") { CK_MECHANISM_INFO mi; memset(&mi, 0, sizeof mi); CK_SLOT_ID s = resolve(c, op["slot"], &unres); CALL(F->C_GetMechanismInfo(s, (CK_MECHANISM_TYPE)(uint64_t)op["mech"].num(), op["null"].boolean() ? nullptr : &mi)); out.set("rv", (long)rv); out.set("min", (long)mi.ulMinKeySize); out.set("max", (long)mi.ulMaxKeySize); out.set("flags", (long)mi.flags); return out; }
    if (f == "C_InitToken") {
        CK_SLOT_ID s = resolve(c, op["slot"], &unres); std::string pin = fromhex(op["pin"].str());
        std::string label = op["label"].str(); label.resize(32, ' ');
        Buf pb; pb.alloc(pin.size()); if (!pin.empty()) memcpy(pb.p, pin.data(), pin.size());
        Buf lb; lb.alloc(32); memcpy(lb.p, label.data(), 32);
        CALL(F->C_InitToken(s, op["pin_null"].boolean() ? nullptr : pb.p, pin.size(), op["label_null"].boolean() ? nullptr : lb.p));
        out.set("rv", (long)rv); out.set("slot", (long)s); if (unres) out.set("unres", true);
        if (rv == CKR_OK && op.has("out")) { c.P->refs[op["out"].str()] = s; learn_files(op["out"].str(), created_files(), true);
            if (c.P->refs.count("FREE") && c.P->refs["FREE"] == s) c.P->refs.erase("FREE"); }
        finish_rng();
        return out;
    }
    if (f == "C_OpenSession") {
        CK_SLOT_ID s = resolve(c, op["slot"], &unres); CK_SESSION_HANDLE h = 0;
        CALL(F->C_OpenSession(s, (CK_FLAGS)op["flags"].num(), nullptr, nullptr, op["null"].boolean() ? nullptr : &h));
        out.set("rv", (long)rv); out.set("slot", (long)s); if (unres) out.set("unres", true);
        if (rv == CKR_OK) { out.set("h", (long)h); note_issued(c.P->sess_issued, h); if (op.has("out")) c.P->refs[op["out"].str()] = h; }
        return out;
    }
    if (f == "C_CloseAllSessions") { CK_SLOT_ID s = resolve(c, op["slot"], &unres); CALL(F->C_CloseAllSessions(s)); out.set("rv", (long)rv); out.set("slot", (long)s); return out; }
    if (f == "C_WaitForSlotEvent") { CK_SLOT_ID s = 0; CALL(F->C_WaitForSlotEvent(CKF_DONT_BLOCK, &s, nullptr)); out.set("rv", (long)rv); return out; }
    if (f == "C_GetFunctionList") { CK_FUNCTION_LIST_PTR p = nullptr; CALL(F->C_GetFunctionList(op["null"].boolean() ? nullptr : &p)); out.set("rv", (long)rv); return out; }

    // everything below takes a session
    CK_SESSION_HANDLE hs = resolve(c, op["s"], &unres);
    out.set("hs", (long)hs); if (unres) out.set("unres", true);
    if (f == "C_CloseSession") { CALL(F->C_CloseSession(hs)); out.set("rv", (long)rv); return out; }
    if (f == "C_GetSessionInfo") { CK_SESSION_INFO si; memset(&si, 0, sizeof si); CALL(F->C_GetSessionInfo(hs, op["null"].boolean() ? nullptr : &si)); out.set("rv", (long)rv); if (rv == CKR_OK) { out.set("slot", (long)si.slotID); out.set("state", (long)si.state); out.set("flags", (long)si.flags); } return out; }
    if (f == "C_Login") { std::string pin = fromhex(op["pin"].str()); Buf pb; pb.alloc(pin.size()); if (!pin.empty()) memcpy(pb.p, pin.data(), pin.size());
        CALL(F->C_Login(hs, (CK_USER_TYPE)op["user"].num(), op["pin_null"].boolean() ? nullptr : pb.p, pin.size())); out.set("rv", (long)rv); return out; }
    if (f == "C_Logout") { CALL(F->C_Logout(hs)); out.set("rv", (long)rv); return out; }
    if (f == "C_InitPIN") { std::string pin = fromhex(op["pin"].str()); Buf pb; pb.alloc(pin.size()); if (!pin.empty()) memcpy(pb.p, pin.data(), pin.size());
        CALL(F->C_InitPIN(hs, op["pin_null"].boolean() ? nullptr : pb.p, pin.size())); out.set("rv", (long)rv); return out; }
    if (f == "C_SetPIN") { std::string o = fromhex(op["old"].str()), n = fromhex(op["new"].str()); Buf ob, nb; ob.alloc(o.size()); nb.alloc(n.size()); if (!o.empty()) memcpy(ob.p, o.data(), o.size()); if (!n.empty()) memcpy(nb.p, n.data(), n.size());
        CALL(F->C_SetPIN(hs, op["old_null"].boolean() ? nullptr : ob.p, o.size(), op["new_null"].boolean() ? nullptr : nb.p, n.size())); out.set("rv", (long)rv); return out; }
    if (f == "C_CreateObject") {
        Tmpl tm; tm.build(op["tmpl"]); CK_OBJECT_HANDLE h = 0;
        CALL(F->C_CreateObject(hs, tm.ptr(), tm.n(), op["null"].boolean() ? nullptr : &h));
        out.set("rv", (long)rv); out.set("h", (long)h);
        if (rv == CKR_OK) { note_issued(c.P->obj_issued, h); if (op.has("out")) { c.P->refs[op["out"].str()] = h; learn_files(op["out"].str(), created_files(), false); } }
        J cf = J::arr(); for (auto& p : created_files()) cf.push(p); if (cf.size()) out.set("files", cf);
        return out;
    }
    if (f == "C_CopyObject") {
        Tmpl tm; tm.build(op["tmpl"]); CK_OBJECT_HANDLE h = 0; bool u2 = false; CK_OBJECT_HANDLE ho = resolve(c, op["o"], &u2);
        CALL(F->C_CopyObject(hs, ho, tm.ptr(), tm.n(), op["null"].boolean() ? nullptr : &h));
        out.set("rv", (long)rv); out.set("ho", (long)ho); out.set("h", (long)h); if (u2) out.set("unres_o", true);
        if (rv == CKR_OK) { note_issued(c.P->obj_issued, h); if (op.has("out")) { c.P->refs[op["out"].str()] = h; learn_files(op["out"].str(), created_files(), false); } }
        J cf = J::arr(); for (auto& p : created_files()) cf.push(p); if (cf.size()) out.set("files", cf);
        return out;
    }
    if (f == "C_DestroyObject") { bool u2 = false; CK_OBJECT_HANDLE ho = resolve(c, op["o"], &u2); CALL(F->C_DestroyObject(hs, ho)); out.set("rv", (long)rv); out.set("ho", (long)ho); if (u2) out.set("unres_o", true); return out; }
    if (f == "C_GetObjectSize") { bool u2 = false; CK_OBJECT_HANDLE ho = resolve(c, op["o"], &u2); CK_ULONG sz = 0; CALL(F->C_GetObjectSize(hs, ho, op["null"].boolean() ? nullptr : &sz)); out.set("rv", (long)rv); out.set("ho", (long)ho); out.set("size", (long)sz); return out; }
    if (f == "C_GetAttributeValue") {
        bool u2 = false; CK_OBJECT_HANDLE ho = resolve(c, op["o"], &u2); const J& want = op["want"];
        std::vector<CK_ATTRIBUTE> at(want.size()); std::vector<std::unique_ptr<Buf>> bufs;
        for (size_t k = 0; k < want.size(); k++) {
            at[k].type = (CK_ATTRIBUTE_TYPE)(uint64_t)want.at(k).at(0).num(); bufs.emplace_back(new Buf);
            if (want.at(k).at(1).isnull()) { at[k].pValue = nullptr; at[k].ulValueLen = want.at(k).size() > 2 ? (CK_ULONG)want.at(k).at(2).num() : 0; }
            else { bufs.back()->alloc(want.at(k).at(1).num()); at[k].pValue = bufs.back()->p; at[k].ulValueLen = bufs.back()->cap; }
        }
        CALL(F->C_GetAttributeValue(hs, ho, at.empty() ? nullptr : at.data(), at.size()));
        out.set("rv", (long)rv); out.set("ho", (long)ho); if (u2) out.set("unres_o", true);
        J res = J::arr();
        for (size_t k = 0; k < want.size(); k++) {
            J e = J::obj(); e.set("type", (long)at[k].type);
            long len = at[k].ulValueLen == CK_UNAVAILABLE_INFORMATION ? -1 : (long)at[k].ulValueLen; e.set("len", len);
            if (!bufs[k]->isnull) { size_t w = bufs[k]->touched(); e.set("touched", (long)w);
                if (len >= 0 && (size_t)len <= bufs[k]->cap && rv != CKR_BUFFER_TOO_SMALL) e.set("v", tohex(bufs[k]->p, len)); else if (w) e.set("dirty", tohex(bufs[k]->p, w)); }
            res.push(e);
        }
        out.set("attrs", res);
        return out;
    }
    if (f == "C_SetAttributeValue") { Tmpl tm; tm.build(op["tmpl"]); bool u2 = false; CK_OBJECT_HANDLE ho = resolve(c, op["o"], &u2); CALL(F->C_SetAttributeValue(hs, ho, tm.ptr(), tm.n())); out.set("rv", (long)rv); out.set("ho", (long)ho); if (u2) out.set("unres_o", true); return out; }
    if (f == "C_FindObjectsInit") { Tmpl tm; tm.build(op["tmpl"]); CALL(F->C_FindObjectsInit(hs, tm.ptr(), tm.n())); out.set("rv", (long)rv); return out; }
    if (f == "C_FindObjects") { CK_ULONG want = op["max"].num(), got = 0; Buf b; b.alloc(want * sizeof(CK_OBJECT_HANDLE));
        CALL(F->C_FindObjects(hs, (CK_OBJECT_HANDLE_PTR)b.p, want, &got)); out.set("rv", (long)rv); out.set("n", (long)got);
        J a = J::arr(); if (rv == CKR_OK) for (CK_ULONG k = 0; k < got && k < want; k++) { CK_OBJECT_HANDLE h = ((CK_OBJECT_HANDLE*)b.p)[k]; a.push((long)h); note_issued(c.P->obj_issued, h); } out.set("h", a); return out; }
    if (f == "C_FindObjectsFinal") { CALL(F->C_FindObjectsFinal(hs)); out.set("rv", (long)rv); return out; }
    if (f == "C_GenerateKey") {
        Mech M; build_mech(c, op["mech"], M); Tmpl tm; tm.build(op["tmpl"]); CK_OBJECT_HANDLE h = 0;
        CALL(F->C_GenerateKey(hs, M.isnull ? nullptr : &M.m, tm.ptr(), tm.n(), op["null"].boolean() ? nullptr : &h));
        out.set("rv", (long)rv); out.set("h", (long)h);
        if (rv == CKR_OK) { note_issued(c.P->obj_issued, h); if (op.has("out")) { c.P->refs[op["out"].str()] = h; learn_files(op["out"].str(), created_files(), false); } }
        J cf = J::arr(); for (auto& p : created_files()) cf.push(p); if (cf.size()) out.set("files", cf);
        finish_rng(); return out;
    }
    if (f == "C_GenerateKeyPair") {
        Mech M; build_mech(c, op["mech"], M); Tmpl pub, prv; pub.build(op["pub"]); prv.build(op["priv"]); CK_OBJECT_HANDLE h1 = 0, h2 = 0;
        CALL(F->C_GenerateKeyPair(hs, M.isnull ? nullptr : &M.m, pub.ptr(), pub.n(), prv.ptr(), prv.n(), &h1, &h2));
        out.set("rv", (long)rv); out.set("h", (long)h1); out.set("h2", (long)h2);
        if (rv == CKR_OK) { note_issued(c.P->obj_issued, h1); note_issued(c.P->obj_issued, h2);
            if (op["out"].size() == 2) { c.P->refs[op["out"].at(0).str()] = h1; c.P->refs[op["out"].at(1).str()] = h2; } }
        J cf = J::arr(); for (auto& p : created_files()) cf.push(p); if (cf.size()) out.set("files", cf);
        finish_rng(); return out;
    }
    if (f == "C_WrapKey") {
        Mech M; build_mech(c, op["mech"], M); CK_OBJECT_HANDLE hw = resolve(c, op["wkey"]), hk = resolve(c, op["key"]);
        Buf ob; CK_ULONG olen = 0; const J& cap = op["outcap"]; if (!cap.isnull()) { ob.alloc(cap.num()); olen = cap.num(); }
        CALL(F->C_WrapKey(hs, M.isnull ? nullptr : &M.m, hw, hk, ob.isnull ? nullptr : ob.p, &olen));
        out.set("rv", (long)rv); out.set("len", (long)olen); out.set("hw", (long)hw); out.set("hk", (long)hk);
        if (!ob.isnull) { size_t w = ob.touched(); out.set("touched", (long)w);
            if (rv == CKR_OK) { size_t n = std::min<size_t>(olen, ob.cap); out.set("out", tohex(ob.p, n)); if (op.has("save")) (*c.saved)[op["save"].str()] = std::string((char*)ob.p, n); }
            else if (w) out.set("dirty", tohex(ob.p, w)); }
        return out;
    }
    if (f == "C_UnwrapKey") {
        Mech M; build_mech(c, op["mech"], M); Tmpl tm; tm.build(op["tmpl"]); CK_OBJECT_HANDLE hu = resolve(c, op["ukey"]), h = 0;
        std::string in = get_in(c, op["in"]); Buf ib; ib.alloc(in.size()); if (!in.empty()) memcpy(ib.p, in.data(), in.size());
        CALL(F->C_UnwrapKey(hs, M.isnull ? nullptr : &M.m, hu, ib.p, in.size(), tm.ptr(), tm.n(), &h));
        out.set("rv", (long)rv); out.set("h", (long)h); out.set("hu", (long)hu);
        if (rv == CKR_OK) { note_issued(c.P->obj_issued, h); if (op.has("out")) { c.P->refs[op["out"].str()] = h; learn_files(op["out"].str(), created_files(), false); } }
        J cf = J::arr(); for (auto& p : created_files()) cf.push(p); if (cf.size()) out.set("files", cf);
        return out;
    }
    if (f == "C_DeriveKey") {
        Mech M; build_mech(c, op["mech"], M); Tmpl tm; tm.build(op["tmpl"]); CK_OBJECT_HANDLE hb = resolve(c, op["base"]), h = 0;
        CALL(F->C_DeriveKey(hs, M.isnull ? nullptr : &M.m, hb, tm.ptr(), tm.n(), &h));
        out.set("rv", (long)rv); out.set("h", (long)h); out.set("hb", (long)hb);
        if (rv == CKR_OK) { note_issued(c.P->obj_issued, h); if (op.has("out")) { c.P->refs[op["out"].str()] = h; learn_files(op["out"].str(), created_files(), false); } }
        J cf = J::arr(); for (auto& p : created_files()) cf.push(p); if (cf.size()) out.set("files", cf);
        return out;
    }
    if (f == "C_SetOperationState") { std::string in = get_in(c, op["in"]); Buf ib; ib.alloc(in.size()); CALL(F->C_SetOperationState(hs, ib.p, in.size(), 0, 0)); out.set("rv", (long)rv); return out; }
    if (f == "C_GetFunctionStatus") { CALL(F->C_GetFunctionStatus(hs)); out.set("rv", (long)rv); return out; }
    if (f == "C_CancelFunction") { CALL(F->C_CancelFunction(hs)); out.set("rv", (long)rv); return out; }
    J r = crypt_generic(c, f, op, hs);
    for (auto& kv : r.o) out.set(kv.first, kv.second);
    return out;
}

static InodeP g_fs_backup;
// the configuration file of the run: knobs.conf at the start, changed by {"act":"restart","conf":{key: value | null}} between C_Finalize and C_Initialize
static std::map<std::string, std::string> g_conf; static std::string g_conf_raw, g_conf_tokendir;
static void write_conf() {
    std::string conf = "directories.tokendir = " + g_conf_tokendir + "\n";
    for (auto& kv : g_conf) conf += kv.first + " = " + kv.second + "\n";
    if (!g_conf.count("objectstore.backend")) conf += "objectstore.backend = file\n";
    if (!g_conf.count("log.level")) conf += "log.level = ERROR\n";
    if (!g_conf.count("slots.mechanisms")) conf += "slots.mechanisms = ALL\n";
    conf += "slots.removable = false\n";
    if (!g_conf_raw.empty()) conf = g_conf_raw;
    g_fs.put_file("/sim/softhsm2.conf", conf, 0644);
}
static J exec_act(Ctx& c, const J& op) {
    const std::string a = op["act"].str(); J out = J::obj(); CK_RV rv = 0;
    auto F = c.P->fl;
    if (a == "start") { rv = do_initialize(c, op["locking"].str(c.P->locking)); out.set("rv", (long)rv); if (rv == CKR_OK) out.set("scan", scan_slots(c)); return out; }
    if (a == "stop") { CALL(F->C_Finalize(nullptr)); out.set("rv", (long)rv); if (rv == CKR_OK) c.P->inited = false; return out; }
    if (a == "restart") {
        CALL(F->C_Finalize(nullptr)); out.set("fin_rv", (long)rv); c.P->inited = false;
        if (op.has("conf")) { for (auto& kv : op["conf"].o) { if (kv.second.t == J::NUL) g_conf.erase(kv.first); else g_conf[kv.first] = kv.second.str(); } write_conf(); }
        rv = do_initialize(c, op["locking"].str(c.P->locking)); out.set("rv", (long)rv);
        if (rv == CKR_OK) out.set("scan", scan_slots(c)); return out;
    }
    if (a == "kill") {   // process death between calls: nothing is finalised, descriptors and locks vanish; the copy is abandoned
        g_fs.drop_pid(c.P->pid); c.P->inited = false; out.set("rv", 0); return out;
    }
    if (a == "become") { // this task continues as another simulated process (fresh library copy)
        int np = op["pid"].num(); c.t->pid = np; c.P = &proc_of(np); out.set("rv", 0); return out;
    }
    if (a == "slots") { return scan_slots(c); }
    if (a == "find") {
        bool unres = false; CK_SESSION_HANDLE hs = resolve(c, op["s"], &unres); Tmpl tm; tm.build(op["tmpl"]);
        J r = find_all(c, hs, tm, op["batches"], op["ident"].boolean(true), nullptr); r.set("hs", (long)hs); return r;
    }
    if (a == "readattrs") {
        CK_SESSION_HANDLE hs = resolve(c, op["s"]); CK_OBJECT_HANDLE ho = resolve(c, op["o"]);
        out.set("hs", (long)hs); out.set("ho", (long)ho); J at = J::obj();
        for (size_t k = 0; k < op["types"].size(); k++) { CK_ATTRIBUTE_TYPE ty = (CK_ATTRIBUTE_TYPE)(uint64_t)op["types"].at(k).num(); at.set(std::to_string((unsigned long)ty), read_attr(c, hs, ho, ty)); }
        out.set("attrs", at); return out;
    }
    if (a == "readout") {
        CK_SESSION_HANDLE hs = resolve(c, op["s"]); Tmpl tm; tm.build(op["tmpl"]); std::vector<CK_OBJECT_HANDLE> hv;
        J r = find_all(c, hs, tm, op["batches"], true, &hv); r.set("hs", (long)hs);
        J objs = J::arr();
        for (auto h : hv) { J o = J::obj(); o.set("h", (long)h); J at = J::obj();
            for (size_t k = 0; k < op["types"].size(); k++) { CK_ATTRIBUTE_TYPE ty = (CK_ATTRIBUTE_TYPE)(uint64_t)op["types"].at(k).num(); at.set(std::to_string((unsigned long)ty), read_attr(c, hs, h, ty)); }
            o.set("attrs", at); objs.push(o); }
        r.set("objs", objs); return r;
    }
    if (a == "probe_handles") {
        // C11: every handle this library instance ever issued is probed with side-effect-free calls
        J ss = J::arr(); CK_SESSION_HANDLE live = 0;
        for (auto h : c.P->sess_issued) { CK_SESSION_INFO si; memset(&si, 0, sizeof si); CALL(F->C_GetSessionInfo(h, &si)); J e = J::arr(); e.push((long)h); e.push((long)rv); e.push((long)si.slotID); e.push((long)si.state); ss.push(e); }
        out.set("sessions", ss);
        J os = J::arr();
        const J& via = op["via"];   // list of session refs to probe through
        for (size_t v = 0; v < via.size(); v++) {
            bool unres = false; CK_SESSION_HANDLE hs = resolve(c, via.at(v), &unres); if (unres) continue;
            J per = J::arr();
            for (auto h : c.P->obj_issued) { CK_ULONG sz = 0; CALL(F->C_GetObjectSize(hs, h, &sz)); J e = J::arr(); e.push((long)h); e.push((long)rv);
                if (rv == CKR_OK) { CK_RV lrv; std::string lab = read_label(c, hs, h, &lrv); e.push((long)lrv); e.push(lab); }
                per.push(e); }
            J pv = J::obj(); pv.set("s", via.at(v)); pv.set("hs", (long)hs); pv.set("objs", per); os.push(pv);
        }
        out.set("objects", os); return out;
    }
    if (a == "disk") { out.set("tree", g_fs.dump_tree(g_fs.root, op["data"].boolean(true))); return out; }
    if (a == "corrupt") { return do_corrupt(op); }
    if (a == "rmtoken") {
        std::string dir = resolve_path("@tokdir:" + op["token"].str()); out.set("dir", dir);
        InodeP par; std::string leaf; InodeP d = g_fs.lookup(dir, &par, &leaf);
        if (d && par && !dir.empty()) { par->ents.erase(leaf); par->order.erase(std::remove(par->order.begin(), par->order.end(), leaf), par->order.end()); out.set("done", true); }
        return out;
    }
    if (a == "fsbackup") { g_fs_backup = g_fs.clone_tree(g_fs.root); return out; }
    if (a == "fsrestore_conf") { if (g_fs_backup) { InodeP save = g_fs.root; g_fs.root = g_fs_backup; InodeP f = g_fs.lookup("/sim/softhsm2.conf"); g_fs.root = save; if (f && f->data) { g_fs.put_file("/sim/softhsm2.conf", *f->data, 0644); out.set("done", true); } } return out; }
    if (a == "fsrestore") { if (g_fs_backup) { g_fs.root = g_fs.clone_tree(g_fs_backup); out.set("done", true); } return out; }
    if (a == "secret") { mon_register_disk_secret(fromhex(op["hex"].str()), op["label"].str("s")); return out; }
    if (a == "setfaults") { // (re)arm sticky environment, e.g. disk full from now on
        return out; }
    if (a == "nop") return out;
    out.set("unknown_act", a);
    return out;
}

// barrier support
static int g_barrier_waiting = 0; static int g_barrier_gen = 0; static int g_barrier_obj;

static J exec_op(Ctx& c, const J& op) {
    if (op.has("act")) {
        if (op["act"].str() == "barrier") {
            int alive = 0; for (auto* t : R.tasks) if (t->st != T_DONE) alive++;
            g_barrier_waiting++;
            if (g_barrier_waiting >= alive) { g_barrier_waiting = 0; g_barrier_gen++; sim_wake_all(&g_barrier_obj); }
            else { int gen = g_barrier_gen; while (gen == g_barrier_gen) sim_block_on(&g_barrier_obj, "barrier"); }
            return J::obj();
        }
        return exec_act(c, op);
    }
    return exec_call(c, op);
}

static std::vector<Snapshot> g_victim_snaps;
static void run_ops(Ctx& c, const J& ops, int base_index, const char* tag, int cs) {
    bool crash_pending = false;
    for (size_t k = 0; k < ops.size(); k++) {
        const J& op = ops.at(k);
        task_begin_op(c.t, base_index + (int)k);
        if (op.has("pid")) { int np = op["pid"].num(); if (np != c.t->pid) { c.t->pid = np; } }
        c.P = &proc_of(c.t->pid);
        J inv = J::obj(); inv.set("e", "inv"); inv.set("op", base_index + (int)k); inv.set("f", op.has("f") ? op["f"] : op["act"]);
        if (cs >= 0) inv.set("cs", cs);
        hist_event(inv);
        bool is_crash_victim = (tag == nullptr) && g_plan.has("crash") && g_plan["crash"]["tid"].num() == c.t->tid && g_plan["crash"]["op"].num() == (long)k;
        if (is_crash_victim) { g_fs.record_snaps = true; g_fs.snaps.clear(); }
        uint64_t e0 = c.t->edges;
        sim_yield(Y_CALL);                       // op boundary
        c.t->in_act = op.has("act");
        J r = exec_op(c, op);
        c.t->in_act = false;
        if (is_crash_victim) g_fs.record_snaps = false;
        J ret = J::obj(); ret.set("e", "ret"); ret.set("op", base_index + (int)k); ret.set("f", op.has("f") ? op["f"] : op["act"]);
        if (cs >= 0) ret.set("cs", cs);
        for (auto& kv : r.o) ret.set(kv.first, kv.second);
        ret.set("edges", (long)(c.t->edges - e0)); ret.set("ny", (long)c.t->yord);
        if (!c.t->ymutex.empty() && R.tasks.size() > 1) { J ym = J::arr(); for (int y_ : c.t->ymutex) ym.push((long)y_); ret.set("ym", ym); }
        if (c.t->wmax_nth >= 0) { J wm = J::arr(); wm.push((long)c.t->wmax_nth); wm.push(c.t->wmax_size); ret.set("wmax", wm); }
        if (!c.t->fs_nth.empty()) { J fsn = J::obj(); for (auto& kv : c.t->fs_nth) fsn.set(kv.first, (long)kv.second); ret.set("fsn", fsn); }   // file operations of this op by kind (fault placement, DESIGN 2.5)
        hist_event(ret);
        if (is_crash_victim) { crash_pending = true; g_fs.snaps.swap(g_victim_snaps); }
    }
    // the ops after the victim call (read-outs of the NEW state) have run: now explore every crash state of the victim call
    if (crash_pending) crash_explore(c, g_plan["crash"]);
}

// ---------------------------------------------------------------- crash exploration (DESIGN 2.6)
static void crash_explore(Ctx& c, const J& crash) {
    // The victim call ran to completion while simfs recorded a snapshot before each mutating operation.
    // The disk a dying process leaves at crash point i is exactly snapshot i.
    std::vector<Snapshot> snaps; snaps.swap(g_victim_snaps);
    InodeP final_state = g_fs.clone_tree(g_fs.root);
    { Snapshot s; s.root = final_state; s.kind = "end"; s.role = "none"; s.tid = c.t->tid; s.op = c.t->cur_op; snaps.push_back(s); }
    bool torn = crash["torn"].boolean(true);
    std::set<std::string> seen; const J& only = crash["only"]; long maxstates = crash["max"].num(100000);
    int victim_pid = c.t->pid; Proc* victimP = c.P;
    int rec_pid = crash["recover_pid"].num(2);
    int csi = 0; long explored = 0;
    struct St { InodeP root; int snap; long torn_at; };
    std::vector<St> states;
    for (size_t i = 0; i < snaps.size(); i++) {
        states.push_back({snaps[i].root, (int)i, -1});
        if (torn && snaps[i].kind == "write" && snaps[i].wlen > 1) {
            // torn variants of this write: a prefix only
            std::set<size_t> cuts; size_t n = snaps[i].wlen;
            for (size_t b : {(size_t)512, (size_t)4096}) { size_t first = b - (snaps[i].woff % b); if (first < n) cuts.insert(first); }
            Prng r; r.seed(0xC0FFEE ^ (i * 7919) ^ n); cuts.insert(1 + r.below(n - 1)); cuts.insert(1 + r.below(n - 1));
            if (n > 8) { cuts.insert(4); cuts.insert(8); cuts.insert(n - 1); }
            for (size_t cut : cuts) {
                InodeP root = g_fs.clone_tree(snaps[i].root);
                SimFS tmp; // apply prefix
                InodeP par; std::string leaf;
                InodeP save = g_fs.root; g_fs.root = root; InodeP f = g_fs.lookup(snaps[i].path); g_fs.root = save;
                if (!f) continue;
                std::string d = f->data ? *f->data : std::string();
                if (d.size() < snaps[i].woff + cut) d.resize(snaps[i].woff + cut, '\0');
                memcpy(&d[snaps[i].woff], snaps[i].wdata.data(), cut);
                f->data = std::make_shared<std::string>(d);
                states.push_back({root, (int)i, (long)cut});
            }
        }
    }
    J summary = J::obj(); summary.set("points", (long)snaps.size()); summary.set("states", (long)states.size());
    { J pl = J::arr(); for (auto& sn : snaps) { J x = J::arr(); x.push(sn.kind); x.push(sn.path); x.push(sn.role); x.push((long)sn.wlen); x.push((long)sn.woff); pl.push(x); } summary.set("points_list", pl); }
    R.extra.set("crash", summary);   // also available if a recovery dies
    long distinct = 0;
    for (auto& st : states) {
        std::string h = g_fs.tree_hash(st.root);
        int idx = csi++;
        if (only.size()) { bool ok = false; for (size_t k = 0; k < only.size(); k++) if (only.at(k).num() == idx) ok = true; if (!ok) continue; }
        if (!seen.insert(h).second) continue;
        distinct++;
        if (explored >= maxstates) continue;
        explored++;
        const Snapshot& sn = snaps[st.snap];
        J ev = J::obj(); ev.set("e", "crash_state"); ev.set("cs", idx); ev.set("point", st.snap); ev.set("npoints", (long)snaps.size());
        ev.set("before_kind", sn.kind); ev.set("before_path", sn.path); ev.set("role", sn.role); ev.set("torn", st.torn_at); ev.set("wlen", (long)sn.wlen); ev.set("woff", (long)sn.woff);
        ev.set("disk_hash", h);
        {   // content of the object/token file the interrupted store sequence works on, for the independent decoder (bounded)
            std::string subj = sn.path, srole = sn.role;
            if (srole != "object" && srole != "token.object") for (int q = st.snap - 1; q >= 0; q--) if (snaps[q].role == "object" || snaps[q].role == "token.object") { subj = snaps[q].path; srole = snaps[q].role; break; }
            ev.set("subject_path", subj); ev.set("subject_role", srole);
            InodeP save = g_fs.root; g_fs.root = st.root; InodeP f = g_fs.lookup(subj); g_fs.root = save;
            if (f && !f->isdir) { size_t n = f->data ? f->data->size() : 0; ev.set("file_size", (long)n); if (n <= 262144) ev.set("file_hex", f->data ? tohex(*f->data) : ""); }
            else ev.set("file_size", -1);
        }
        hist_event(ev);
        R.steps = 0;   // the step budget (bounded liveness) applies to each recovery separately
        // process death: the victim's descriptors and locks are gone; recovery runs in a fresh library copy
        g_fs.drop_pid(victim_pid); g_fs.drop_pid(rec_pid);
        g_fs.restore(st.root);
        c.t->pid = rec_pid; c.P = &proc_of(rec_pid);
        c.P->refs.clear(); c.P->inited = false; c.P->sess_issued.clear(); c.P->obj_issued.clear();
        std::map<std::string, std::string> saved; auto* old = c.saved; c.saved = &saved;
        run_ops(c, crash["recover"], 100000, "recover", idx);
        c.saved = old;
        if (c.P->inited) { CK_RV rv; CALL(c.P->fl->C_Finalize(nullptr)); c.P->inited = false; }
    }
    c.t->pid = victim_pid; c.P = victimP;
    summary.set("distinct", distinct); summary.set("explored", explored);
    R.extra.set("crash", summary);
}

// ---------------------------------------------------------------- run a plan
static sem_t g_started;
static void* task_main(void* arg) {
    Task* t = (Task*)arg;
    tl_task = t;
    sem_post(&g_started);      // threads are started strictly one after the other: allocator arenas and sanitizer thread ids must not depend on real timing
    while (sem_wait(&t->sem) != 0) {}
    std::map<std::string, std::string> saved;
    Ctx c; c.t = t; c.P = &proc_of(t->pid); c.saved = &saved;
    run_ops(c, t->ops, 0, nullptr, -1);
    task_finished(t);
    return nullptr;
}

void exec_plan(const J& plan, int outfd) {
    g_plan = plan;
    R.outfd = outfd;
    sem_init(&R.done_sem, 0, 0);
    const J& kn = plan["knobs"];
    g_fs.reset();
    g_fs.readdir_order = kn["readdir"].str("creation");
    g_fs.stdio_buf = kn["stdio_buf"].num(4096);
    g_fs.proc_umask = (mode_t)strtol(kn["proc_umask"].str("022").c_str(), nullptr, 8);
    g_fs.short_io = kn["short_io"].boolean(false);
    g_fs.shuffle_seed = plan["seed"].num() * 2654435761u + 17;
    g_log_fs = kn["log_fs"].boolean(false);
    extern bool g_log_syslog; g_log_syslog = kn["log_syslog"].boolean(false);
    R.policy = kn["policy"].str("call"); R.switch_p = kn["switch_p"].dbl(0.2);
    R.step_budget = kn["step_budget"].num(5000000);
    R.rng.seed((uint64_t)plan["seed"].num() ^ 0x5EED5EED5EEDull);
    rng_reseed((uint64_t)plan["seed"].num() * 0x9E3779B97F4A7C15ull + 12345);
    // config + token dir
    { extern std::string g_real_root; std::string td = kn["tokendir"].str("/sim/tokens"); g_real_root = td.compare(0, 5, "/sim/") == 0 ? std::string() : td; }
    g_conf.clear(); g_conf_raw.clear(); g_conf_tokendir = kn["tokendir"].str("/sim/tokens");   // a path outside /sim/ = real backing (pass-through)
    { const J& cf = kn["conf"];
      for (auto& kv : cf.o) { if (kv.first == "__raw") continue; g_conf[kv.first] = kv.second.str(); }
      if (cf.has("__raw")) g_conf_raw = fromhex(cf["__raw"].str()); }
    g_fs.mkdirs("/sim/tokens", 0700);
    write_conf();
    // initial disk
    const J& disk = plan["disk"];
    if (disk.t == J::OBJ && disk.has("files")) {
        for (auto& kv : disk["files"].o) {
            if (kv.second["dir"].boolean()) g_fs.mkdirs(kv.first, (mode_t)strtol(kv.second["mode"].str("0700").c_str(), nullptr, 8));
            else g_fs.put_file(kv.first, fromhex(kv.second["hex"].str()), (mode_t)strtol(kv.second["mode"].str("0600").c_str(), nullptr, 8));
        }
    }
    for (size_t k = 0; k < plan["disk_secrets"].size(); k++) mon_register_disk_secret(fromhex(plan["disk_secrets"].at(k).str()), "plan" + std::to_string(k));
    // faults
    for (size_t k = 0; k < plan["faults"].size(); k++) {
        const J& f = plan["faults"].at(k); Fault ft; ft.tid = f["tid"].num(); ft.op = f["op"].num(); ft.fs = f["fs"].str(); ft.nth = f["nth"].num();
        ft.err = err_by_name(f["err"].str()); ft.partial = f["partial"].num(0); ft.sticky = f["sticky"].boolean(false); g_fs.faults.push_back(ft);
    }
    // guided schedule
    if (plan.has("schedule")) { R.guided = true; for (size_t k = 0; k < plan["schedule"].size(); k++) { const J& d = plan["schedule"].at(k); R.guide[std::make_tuple((int)d.at(0).num(), (int)d.at(1).num(), (int)d.at(2).num())] = (int)d.at(3).num(); } }
    // tasks
    const J& tasks = plan["tasks"];
    for (size_t k = 0; k < tasks.size(); k++) {
        Task* t = new Task; t->tid = (int)k; t->pid = tasks.at(k)["pid"].num(1); t->ops = tasks.at(k)["ops"]; sem_init(&t->sem, 0, 0); t->st = T_RUNNABLE;
        if (k == 0) { R.parks.clear(); const J& pk = kn["parks"]; for (size_t j = 0; j < pk.size(); j++) R.parks.push_back({(int)pk.at(j).at(0).num(), (int)pk.at(j).at(1).num(), (int)pk.at(j).at(2).num(), (int)pk.at(j).at(3).num()}); }
        const J& pre = kn["preempt"];
        for (size_t j = 0; j < pre.size(); j++) if (pre.at(j).at(0).num() == (long)k) t->preempts.push_back({(int)pre.at(j).at(1).num(), (uint64_t)pre.at(j).at(2).num()});
        std::sort(t->preempts.begin(), t->preempts.end());
        R.tasks.push_back(t);
    }
    for (size_t k = 0; k < plan["procs"].size(); k++) { Proc& p = proc_of(plan["procs"].at(k)["pid"].num()); if (plan["procs"].at(k).has("copy")) { p.copy = plan["procs"].at(k)["copy"].num(); p.fl = copy_fl(p.copy); } }
    install_death_handlers(kn["watchdog_s"].num(120));
    R.sched_on = true;
    pthread_attr_t at; pthread_attr_init(&at); pthread_attr_setstacksize(&at, 8 << 20);
    sem_init(&g_started, 0, 0);
    for (auto* t : R.tasks) { pthread_create(&t->th, &at, task_main, t); while (sem_wait(&g_started) != 0) {} }
    if (!R.tasks.empty()) { R.cur = 0; sem_post(&R.tasks[0]->sem); while (sem_wait(&R.done_sem) != 0) {} }
    R.sched_on = false;
    if (kn["final_disk"].boolean(false)) { J ev = J::obj(); ev.set("e", "final_disk"); ev.set("tree", g_fs.dump_tree(g_fs.root, true)); hist_event(ev); }
    run_finish("done", 0, nullptr);
}
