// Minimal JSON value, parser and writer for the p11sim executor (no external deps).
#pragma once
#include <string>
#include <vector>
#include <map>
#include <memory>
#include <cstdint>
#include <cstdio>
#include <cstring>
#include <stdexcept>

struct J {
    enum T { NUL, BOOL, NUM, STR, ARR, OBJ } t = NUL;
    bool b = false;
    double d = 0;
    int64_t i = 0;
    bool isint = false;
    std::string s;
    std::vector<J> a;
    std::vector<std::pair<std::string, J>> o;  // ordered: output is deterministic

    J() {}
    J(bool v) : t(BOOL), b(v) {}
    J(int v) : t(NUM), d(v), i(v), isint(true) {}
    J(long v) : t(NUM), d(v), i(v), isint(true) {}
    J(unsigned long v) : t(NUM), d(v), i((int64_t)v), isint(true) {}
    J(long long v) : t(NUM), d(v), i(v), isint(true) {}
    J(double v) : t(NUM), d(v), i((int64_t)v), isint(false) {}
    J(const char* v) : t(STR), s(v) {}
    J(const std::string& v) : t(STR), s(v) {}
    static J arr() { J j; j.t = ARR; return j; }
    static J obj() { J j; j.t = OBJ; return j; }

    bool isnull() const { return t == NUL; }
    bool has(const std::string& k) const {
        if (t != OBJ) return false;
        for (auto& p : o) if (p.first == k) return true;
        return false;
    }
    const J& operator[](const std::string& k) const {
        static J nul;
        if (t != OBJ) return nul;
        for (auto& p : o) if (p.first == k) return p.second;
        return nul;
    }
    J& set(const std::string& k, const J& v) {
        if (t != OBJ) { t = OBJ; o.clear(); }
        for (auto& p : o) if (p.first == k) { p.second = v; return p.second; }
        o.push_back({k, v});
        return o.back().second;
    }
    J& push(const J& v) { if (t != ARR) { t = ARR; a.clear(); } a.push_back(v); return a.back(); }
    const J& at(size_t k) const { static J nul; return (t == ARR && k < a.size()) ? a[k] : nul; }
    size_t size() const { return t == ARR ? a.size() : t == OBJ ? o.size() : 0; }
    int64_t num(int64_t def = 0) const { return t == NUM ? (isint ? i : (int64_t)d) : t == BOOL ? (b ? 1 : 0) : def; }
    double dbl(double def = 0) const { return t == NUM ? d : def; }
    bool boolean(bool def = false) const { return t == BOOL ? b : t == NUM ? (d != 0) : def; }
    const std::string& str() const { static std::string e; return t == STR ? s : e; }
    std::string str(const std::string& def) const { return t == STR ? s : def; }

    static void esc(std::string& out, const std::string& v) {
        out += '"';
        for (unsigned char c : v) {
            switch (c) {
                case '"': out += "\\\""; break;
                case '\\': out += "\\\\"; break;
                case '\n': out += "\\n"; break;
                case '\r': out += "\\r"; break;
                case '\t': out += "\\t"; break;
                default:
                    if (c < 0x20 || c >= 0x7f) { char b[8]; snprintf(b, sizeof b, "\\u%04x", c); out += b; }
                    else out += (char)c;
            }
        }
        out += '"';
    }
    void dump(std::string& out) const {
        switch (t) {
            case NUL: out += "null"; break;
            case BOOL: out += b ? "true" : "false"; break;
            case NUM: {
                char buf[40];
                if (isint) snprintf(buf, sizeof buf, "%lld", (long long)i);
                else snprintf(buf, sizeof buf, "%.17g", d);
                out += buf; break;
            }
            case STR: esc(out, s); break;
            case ARR: {
                out += '[';
                for (size_t k = 0; k < a.size(); k++) { if (k) out += ','; a[k].dump(out); }
                out += ']'; break;
            }
            case OBJ: {
                out += '{';
                for (size_t k = 0; k < o.size(); k++) { if (k) out += ','; esc(out, o[k].first); out += ':'; o[k].second.dump(out); }
                out += '}'; break;
            }
        }
    }
    std::string dump() const { std::string s; dump(s); return s; }

    // ---- parser
    struct P {
        const char* p; const char* e;
        void ws() { while (p < e && (*p == ' ' || *p == '\n' || *p == '\t' || *p == '\r')) p++; }
        [[noreturn]] void fail(const char* m) { throw std::runtime_error(std::string("json: ") + m); }
        J val() {
            ws();
            if (p >= e) fail("eof");
            char c = *p;
            if (c == '{') {
                p++; J j = J::obj(); ws();
                if (p < e && *p == '}') { p++; return j; }
                for (;;) {
                    ws(); if (p >= e || *p != '"') fail("key");
                    std::string k = strv(); ws();
                    if (p >= e || *p != ':') fail("colon"); p++;
                    j.o.push_back({k, val()}); ws();
                    if (p < e && *p == ',') { p++; continue; }
                    if (p < e && *p == '}') { p++; break; }
                    fail("obj");
                }
                return j;
            }
            if (c == '[') {
                p++; J j = J::arr(); ws();
                if (p < e && *p == ']') { p++; return j; }
                for (;;) {
                    j.a.push_back(val()); ws();
                    if (p < e && *p == ',') { p++; continue; }
                    if (p < e && *p == ']') { p++; break; }
                    fail("arr");
                }
                return j;
            }
            if (c == '"') return J(strv());
            if (c == 't' && e - p >= 4 && !strncmp(p, "true", 4)) { p += 4; return J(true); }
            if (c == 'f' && e - p >= 5 && !strncmp(p, "false", 5)) { p += 5; return J(false); }
            if (c == 'n' && e - p >= 4 && !strncmp(p, "null", 4)) { p += 4; return J(); }
            // number
            const char* st = p; bool isf = false;
            if (p < e && (*p == '-' || *p == '+')) p++;
            while (p < e && ((*p >= '0' && *p <= '9') || *p == '.' || *p == 'e' || *p == 'E' || *p == '-' || *p == '+')) {
                if (*p == '.' || *p == 'e' || *p == 'E') isf = true; p++;
            }
            if (p == st) fail("value");
            std::string n(st, p);
            if (isf) return J(strtod(n.c_str(), nullptr));
            J j; j.t = NUM; j.isint = true;
            if (n[0] == '-') { j.i = strtoll(n.c_str(), nullptr, 10); }
            else { j.i = (int64_t)strtoull(n.c_str(), nullptr, 10); }
            j.d = (double)j.i; return j;
        }
        std::string strv() {
            std::string out; p++;
            while (p < e && *p != '"') {
                if (*p == '\\') {
                    p++; if (p >= e) fail("esc");
                    switch (*p) {
                        case 'n': out += '\n'; break; case 't': out += '\t'; break; case 'r': out += '\r'; break;
                        case 'b': out += '\b'; break; case 'f': out += '\f'; break;
                        case 'u': {
                            if (e - p < 5) fail("u");
                            unsigned v = 0; for (int k = 1; k <= 4; k++) { char h = p[k]; v = v * 16 + (h <= '9' ? h - '0' : (h | 32) - 'a' + 10); }
                            p += 4;
                            if (v < 0x80) out += (char)v;
                            else if (v < 0x800) { out += (char)(0xC0 | (v >> 6)); out += (char)(0x80 | (v & 0x3F)); }
                            else { out += (char)(0xE0 | (v >> 12)); out += (char)(0x80 | ((v >> 6) & 0x3F)); out += (char)(0x80 | (v & 0x3F)); }
                            break;
                        }
                        default: out += *p;
                    }
                    p++;
                } else out += *p++;
            }
            if (p >= e) fail("str"); p++;
            return out;
        }
    };
    static J parse(const std::string& txt) { P ps{txt.data(), txt.data() + txt.size()}; return ps.val(); }
};

inline std::string tohex(const void* p, size_t n) {
    static const char* H = "0123456789abcdef";
    std::string s; s.resize(n * 2);
    const unsigned char* b = (const unsigned char*)p;
    for (size_t k = 0; k < n; k++) { s[2 * k] = H[b[k] >> 4]; s[2 * k + 1] = H[b[k] & 15]; }
    return s;
}
inline std::string tohex(const std::string& v) { return tohex(v.data(), v.size()); }
inline std::string fromhex(const std::string& h) {
    std::string out; out.reserve(h.size() / 2);
    auto v = [](char c) { return c <= '9' ? c - '0' : (c | 32) - 'a' + 10; };
    for (size_t k = 0; k + 1 < h.size(); k += 2) out += (char)((v(h[k]) << 4) | v(h[k + 1]));
    return out;
}
