// p11sim: shared declarations (scheduler, simulated disk, history, RNG seam)
#pragma once
#include <string>
#include <vector>
#include <map>
#include <set>
#include <memory>
#include <cstdint>
#include <semaphore.h>
#include <pthread.h>
#include <sys/stat.h>
#include "json.hpp"

// ---------------------------------------------------------------- PRNG (splitmix64)
struct Prng {
    uint64_t s = 0x9E3779B97F4A7C15ull;
    void seed(uint64_t v) { s = v; }
    uint64_t next() { uint64_t z = (s += 0x9E3779B97F4A7C15ull); z = (z ^ (z >> 30)) * 0xBF58476D1CE4E5B9ull; z = (z ^ (z >> 27)) * 0x94D049BB133111EBull; return z ^ (z >> 31); }
    uint64_t below(uint64_t n) { return n ? next() % n : 0; }
    double unit() { return (next() >> 11) * (1.0 / 9007199254740992.0); }
};

// ---------------------------------------------------------------- tasks / scheduler
enum YKind { Y_CALL = 1, Y_FS = 2, Y_MUTEX = 3, Y_EDGE = 4 };
enum TState { T_NEW, T_RUNNABLE, T_BLOCKED, T_DONE };

struct Task {
    int tid = 0;
    int pid = 1;             // simulated process this task currently acts as
    pthread_t th;
    sem_t sem;
    TState st = T_NEW;
    const void* waiting_on = nullptr;
    const char* waiting_kind = "";
    uint64_t edges = 0;      // instrumented edges executed (whole run)
    uint64_t op_edge0 = 0;   // edges at start of current op
    uint64_t next_pre = 0;   // absolute edge count at which to pre-empt (0 = none)
    int cur_op = -1;         // index of the op being executed
    bool in_call = false;    // inside a PKCS#11 call
    bool ret_yield = false;  // the yield right after a PKCS#11 call of this task returned (what long pre-emptions count)
    bool in_act = false;     // inside a composite harness action (atomic under the 'call' policy)
    int yord = 0;            // yield ordinal inside the current op
    std::vector<int> ymutex;   // per op: a uniform sample (reservoir, <= 96) of the yield ordinals that are mutex operations (placement of long pre-emptions)
    uint64_t ymutex_seen = 0, ymutex_lcg = 1;
    int wmax_nth = -1; long wmax_size = 0;   // per op: ordinal and size of the largest write(2) request (fault placement)
    long parked_until = -1;  // parked (see Run::parks) until R.call_yields reaches this value
    std::map<std::string, int> fs_nth;  // per op: fs kind -> ordinal
    std::vector<std::pair<int, uint64_t>> preempts;  // (op, edge-in-op) sorted
    size_t pre_i = 0;
    J ops;
};

struct SimMutex { int owner = -1; bool destroyed = false; int id = 0; };

extern thread_local Task* tl_task;

void sim_yield(YKind k);
void sim_block_on(const void* res, const char* kind);   // current task blocks until woken, then returns
void sim_wake_all(const void* res);
int  sim_cur_pid();
int  sim_cur_tid();

void* sim_mutex_create();
void sim_mutex_destroy(void* m);
void sim_mutex_lock(void* m);
void sim_mutex_unlock(void* m);

// ---------------------------------------------------------------- history
void hist_event(J& ev);                 // appends n (sequence), t, p and writes the line
void hist_hash_only(const std::string& s);
void hist_mon(const char* kind, const J& detail);
[[noreturn]] void sim_die(int code, const char* why);   // flush history + result, _exit
extern bool g_log_fs;

// ---------------------------------------------------------------- simulated disk
struct Inode {
    bool isdir = false;
    std::shared_ptr<std::string> data;     // files (copy-on-write across snapshots)
    mode_t mode = 0;
    uint64_t ino = 0;
    std::map<std::string, std::shared_ptr<Inode>> ents;  // directories
    std::vector<std::string> order;                      // creation order of entries
    std::map<int, int> locks;                            // pid -> F_RDLCK/F_WRLCK (not part of snapshots)
    int opens = 0;
    int rewriting_pid = 0;                               // a store sequence (truncate .. unlock/close) is under way by this pid
    std::map<const void*, int> sqlocks;                  // SQLite file handle -> lock level (1 SHARED .. 4 EXCLUSIVE); not part of snapshots
};
typedef std::shared_ptr<Inode> InodeP;

struct Snapshot {
    InodeP root;
    int at_event = 0;       // history sequence number of the fs op this snapshot precedes
    int tid = 0, op = 0;
    std::string kind, path; // the mutating op about to happen
    std::string role;       // file role (object, token.object, lock, dir, generation, other)
    size_t wlen = 0;        // for writes: bytes about to be written
    size_t woff = 0;
    std::string wdata;      // for writes: the data (to build torn variants)
};

struct Fault { int tid, op; std::string fs; int nth; int err; long partial; bool fired = false; bool sticky = false; };

struct SimFS {
    InodeP root;
    uint64_t next_ino = 2;
    std::string readdir_order = "creation";
    int stdio_buf = 0;           // 0 = glibc default for cookie streams
    mode_t proc_umask = 022;
    bool short_io = false;
    bool record_snaps = false;
    std::vector<Snapshot> snaps;
    std::vector<Fault> faults;
    std::map<std::string, int> fired;
    std::map<std::string, long> opcount;
    uint64_t shuffle_seed = 1;

    void reset();
    InodeP lookup(const std::string& path, InodeP* parent = nullptr, std::string* leaf = nullptr);
    InodeP clone_tree(const InodeP& n);
    bool mkdirs(const std::string& path, mode_t mode);
    void put_file(const std::string& path, const std::string& data, mode_t mode);
    std::string tree_hash(const InodeP& n);
    J dump_tree(const InodeP& n, bool with_data);
    void restore(const InodeP& snap);
    void drop_pid(int pid);       // process death: close descriptors, drop locks
};
extern SimFS g_fs;

// secrets that must never reach the disk (C06) / an output buffer (C02)
void mon_register_disk_secret(const std::string& bytes, const std::string& label);
void mon_clear_disk_secrets();
void mon_scan_file(const std::string& path, const std::string& data);

void exec_note_created(const std::string& path);
void simvfs_register();              // SQLite VFS over the simulated disk (paths under /sim/); everything else goes to the unix VFS

// ---------------------------------------------------------------- RNG seam
void rng_install(uint64_t seed);
void rng_reseed(uint64_t seed);
extern std::vector<std::string>* g_rng_capture;   // when non-null, every draw is appended

// ---------------------------------------------------------------- real libc (bypassing --wrap)
extern "C" {
struct stat; struct dirent;
int __real_ftruncate(int, off_t);
int __real_close(int);
int __real_fstat(int, struct stat*);
int __real_lstat(const char*, struct stat*);
int __real_access(const char*, int);
int __real_fcntl(int, int, ...);
int __real_mkdir(const char*, mode_t);
int __real_rmdir(const char*);
int __real_remove(const char*);
int __real_unlink(const char*);
int __real_fileno(FILE*);
FILE* __real_fdopen(int, const char*);
void* __real_opendir(const char*);
struct dirent* __real_readdir(void*);
int __real_closedir(void*);
int __real_open(const char*, int, ...);
FILE* __real_fopen(const char*, const char*);
void __real_exit(int) __attribute__((noreturn));
time_t __real_time(time_t*);
pid_t __real_getpid(void);
char* __real_getenv(const char*);
int __real_pthread_mutex_init(pthread_mutex_t*, const pthread_mutexattr_t*);
int __real_pthread_mutex_destroy(pthread_mutex_t*);
int __real_pthread_mutex_lock(pthread_mutex_t*);
int __real_pthread_mutex_unlock(pthread_mutex_t*);
}
