// p11sim entry: canonical zygote that forks one child per simulated run (DESIGN 2.3).
//   p11sim zygote      commands on stdin:  RUN <plan.json> <out.jsonl>\n  -> reply on stdout: DONE <wait-status>\n
#include "sim.hpp"
#include "run.hpp"
#include "cryptoki.h"
#include <sys/personality.h>
#include <sys/wait.h>
#include <unistd.h>
#include <fcntl.h>
#include <cerrno>

extern "C" __attribute__((used, visibility("default"))) const char* __asan_default_options() {
    return "exitcode=77:detect_leaks=0:detect_odr_violation=0:abort_on_error=0:handle_abort=0:allocator_may_return_null=0:malloc_context_size=12:detect_stack_use_after_return=0";
}
extern "C" __attribute__((used, visibility("default"))) const char* __ubsan_default_options() {
    return "halt_on_error=1:exitcode=77:print_stacktrace=1";
}

void exec_plan(const J& plan, int outfd);
CK_FUNCTION_LIST_PTR copy_fl(int copy);

static char g_cmd[8192];

static std::string slurp(const char* path) {
    int fd = __real_open(path, O_RDONLY);
    std::string s; if (fd < 0) return s;
    char buf[65536]; ssize_t k;
    while ((k = read(fd, buf, sizeof buf)) > 0) s.append(buf, k);
    close(fd); return s;
}

static void warmup() {
    // initialise the sanitizer runtime, OpenSSL and each library copy once, on a throw-away simulated disk
    rng_install(1);
    g_fs.reset();
    g_fs.mkdirs("/sim/tokens", 0700);
    g_fs.put_file("/sim/softhsm2.conf", "directories.tokendir = /sim/tokens\nobjectstore.backend = file\nlog.level = ERROR\nslots.removable = false\n", 0644);
    for (int c = 1; c <= NCOPIES; c++) {
        R.ctrl_pid = c;
        CK_FUNCTION_LIST_PTR fl = copy_fl(c);
        CK_C_INITIALIZE_ARGS args; memset(&args, 0, sizeof args);
        CK_RV rv = fl->C_Initialize(&args);
        if (rv != CKR_OK) { fprintf(stderr, "p11sim: warm-up C_Initialize of copy %d failed: 0x%lx\n", c, rv); _exit(3); }
        CK_ULONG n = 0; fl->C_GetSlotList(CK_FALSE, nullptr, &n);
        fl->C_Finalize(nullptr);
    }
    R.ctrl_pid = 1;
    g_fs.reset();
    R.hash = 0xcbf29ce484222325ull; R.hist.clear(); R.nev = 0;
}

int main(int argc, char** argv) {
    // 1. fixed address space and fixed environment: re-exec once
    if (!__real_getenv("P11SIM_CANON")) {
        personality(ADDR_NO_RANDOMIZE);
        char a0[] = "p11sim", a1[] = "zygote";
        char* nargv[] = {a0, a1, nullptr};
        char e0[] = "P11SIM_CANON=1";
        char* nenv[] = {e0, nullptr};
        execve("/proc/self/exe", nargv, nenv);
        perror("execve"); return 3;
    }
    signal(SIGPIPE, SIG_IGN);
    simvfs_register();
    warmup();
    // 2. command loop; no heap allocation in the parent from here on
    size_t have = 0;
    for (;;) {
        // read one line
        char* nl = (char*)memchr(g_cmd, '\n', have);
        while (!nl) {
            if (have >= sizeof g_cmd - 1) return 3;
            ssize_t k = read(0, g_cmd + have, sizeof g_cmd - 1 - have);
            if (k <= 0) return 0;
            have += k; nl = (char*)memchr(g_cmd, '\n', have);
        }
        *nl = 0;
        size_t linelen = nl - g_cmd + 1;
        if (!strncmp(g_cmd, "RUN ", 4)) {
            char* p1 = g_cmd + 4; char* sp = strchr(p1, ' ');
            if (!sp) return 3;
            *sp = 0; char* p2 = sp + 1;
            pid_t pid = fork();
            if (pid == 0) {
                int outfd = __real_open(p2, O_WRONLY | O_CREAT | O_TRUNC, 0644);
                { char ep[4200]; snprintf(ep, sizeof ep, "%s.err", p2); int efd = __real_open(ep, O_WRONLY | O_CREAT | O_TRUNC, 0644); if (efd >= 0) { dup2(efd, 2); close(efd); } }
                std::string txt = slurp(p1);
                J plan;
                try { plan = J::parse(txt); } catch (std::exception& e) { fprintf(stderr, "plan parse error: %s\n", e.what()); _exit(4); }
                exec_plan(plan, outfd);
                _exit(0);
            }
            int st = 0;
            while (waitpid(pid, &st, 0) < 0 && errno == EINTR) {}
            char rep[64]; int n = snprintf(rep, sizeof rep, "DONE %d\n", st);
            if (write(1, rep, n) != n) return 0;
        } else if (!strncmp(g_cmd, "QUIT", 4)) return 0;
        memmove(g_cmd, g_cmd + linelen, have - linelen); have -= linelen;
    }
}
